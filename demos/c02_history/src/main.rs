use std::thread;
use std::path::{Path, PathBuf};
#[derive(Debug)]
struct MemFs;
impl grass::Fs for MemFs {
    fn is_dir(&self, _p: &Path) -> bool { false }
    fn is_file(&self, p: &Path) -> bool { FILES.iter().any(|(n, _)| Path::new(n) == p) }
    fn read(&self, p: &Path) -> std::io::Result<Vec<u8>> {
        FILES.iter().find(|(n, _)| Path::new(n) == p).map(|(_, c)| c.as_bytes().to_vec()).ok_or_else(|| std::io::Error::new(std::io::ErrorKind::NotFound, "nf"))
    }
    fn canonicalize(&self, p: &Path) -> std::io::Result<PathBuf> { Ok(p.to_path_buf()) }
}
static FILES: &[(&str, &str)] = &[
    ("_two.scss", "$zeta: 1; $alpha: 2;"),
    ("_conf.scss", "$x: 1 !default;"),
];
fn run(history: Option<&'static str>, input: &'static str) -> String {
    thread::spawn(move || {
        let o = grass::Options::default().fs(&MemFs);
        if let Some(h) = history { let _ = grass::from_string(h.to_string(), &o); }
        match grass::from_string(input.to_string(), &o) { Ok(s) => s, Err(e) => e.to_string() }
    }).join().unwrap()
}
fn main() {
    let hist = "$unquote: 1; $beta: 0; $alpha: 0; $b: 1; $pi: 3; $saturation: 1; $blackness: 1; $z2: 0; $b2: 0; @function alpha(){@return 1}";
    let cases: &[(&str,&str)] = &[
      ("get_variadic", "a { b: min(1, 2, $zeta: 1, $alpha: 2); }"),
      ("add_module conflict", "$zeta: 0; $alpha: 0; @use 'two' as *;"),
      ("Configuration::first", "@use 'conf' with ($zeta: 1, $alpha: 2);"),
      ("keywords", "@function k($args...) { @return inspect(keywords($args)); } a { b: k($zeta: 1, $alpha: 2); }"),
    ];
    for (name, input) in cases {
        let a = run(None, input);
        let b = run(Some(hist), input);
        println!("== {} : {}\n   fresh : {}\n   after : {}", name, if a == b {"same"} else {"DIFFERENT"}, a.replace('\n'," "), b.replace('\n'," "));
    }
}
