#!/bin/sh
# usage: revert_and_check.sh <commit> <property> [extra check args]
# Temporarily reverts one /repo commit in the working tree (no commit), runs the check, restores the tree.
set -u
commit=$1; prop=$2; shift 2
cd /repo || exit 2
git diff --quiet || { echo "/repo working tree not clean"; exit 2; }
git show "$commit" | git apply -R || { echo "cannot revert $commit"; exit 2; }
cd /verif && ./check "$prop" "$@"
rc=$?
git -C /repo checkout -- .
exit $rc
