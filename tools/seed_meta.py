#!/usr/bin/env python3
"""(Re)writes seeded/<id>/meta.json from the sub-agent's agent_meta.json and my confirm.log; keeps caught_by fields."""
import glob
import json
import os
import re

V = os.path.dirname(os.path.dirname(os.path.abspath(__file__)))
for d in sorted(x for x in glob.glob(os.path.join(V, "seeded", "*")) if os.path.isdir(x)):
    am = os.path.join(d, "agent_meta.json")
    a = json.load(open(am)) if os.path.exists(am) else {}
    old = json.load(open(os.path.join(d, "meta.json"))) if os.path.exists(os.path.join(d, "meta.json")) else {}
    conf = open(os.path.join(d, "confirm.log")).read() if os.path.exists(os.path.join(d, "confirm.log")) else ""
    summ = re.findall(r"Summary.*", conf)
    rc = re.findall(r"demo_with_patch_rc=(\d+) demo_without_patch_rc=(\d+)", conf)
    sid = os.path.basename(d)
    meta = {
        "property": sid[:3],
        "seed": sid,
        "round": next((n for n in (2, 3, 4) if "-r%d-" % n in sid), 1),
        "summary": a.get("summary", ""),
        "breaks": a.get("breaks", ""),
        "needs_to_manifest": a.get("needs_to_manifest", ""),
        "files_changed": a.get("files_changed", []),
        "origin": "fresh sub-agent given only the property text (round 2: plus one quoted part of it to focus on) and a scratch git worktree of /repo; nothing from /verif",
        "confirmed_by_me": {
            "how": "tools/seed_confirm.sh <seed> <worktree>: demo/run.sh with the patch applied, the unedited test suite with the patch applied, demo/run.sh with the patch reverted",
            "demo_rc_with_patch": int(rc[-1][0]) if rc else None,
            "demo_rc_without_patch": int(rc[-1][1]) if rc else None,
            "suite_with_patch": summ[-1].strip() if summ else None,
            "suite_command": "cargo nextest run --workspace --no-fail-fast --test-threads N --offline",
        },
        "checks": "checks.log = every quick check of MANIFEST.json with the current rules against /repo's tree + patch.diff (in a scratch worktree or with `git -C /repo apply`, undone afterwards); "
                  "checks-baseline.log = the same with the rules as they were before this seed's round (round 1: /verif commit cd181b1; round 2: the rules after round 1)",
    }
    for k in ("caught_by", "caught_by_baseline_rules"):
        if k in old:
            meta[k] = old[k]
    json.dump(meta, open(os.path.join(d, "meta.json"), "w"), indent=1)
print("ok")
