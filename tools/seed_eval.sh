#!/bin/bash
# usage: seed_eval.sh <seed-id> <worktree> [--skip-suite]
# Confirms a seeded change (demo fails with it / passes without it, test suite passes with it) in the scratch worktree,
# copies its artifacts to /verif/seeded/<seed-id>/ and runs every registered quick check against it in /repo.
set -u
id=$1; wt=$2; skip=${3:-}
out=/verif/seeded/$id
mkdir -p $out
cp $wt/patch.diff $out/patch.diff
rm -rf $out/demo; cp -r $wt/demo $out/demo
cp $wt/meta.json $out/agent_meta.json 2>/dev/null
cd $wt || exit 2
export CARGO_NET_OFFLINE=true CARGO_TARGET_DIR=$wt/target
log=$out/confirm.log; : > $log
git diff -- crates > /tmp/seed_cur.diff
if ! diff -q /tmp/seed_cur.diff patch.diff >/dev/null; then echo "worktree diff != patch.diff; resetting and applying patch" | tee -a $log; git checkout -- crates; git apply patch.diff || { echo "PATCH DOES NOT APPLY" | tee -a $log; exit 2; }; fi
echo "== demo WITH patch" | tee -a $log
( [ -f demo/run.sh ] && timeout 1200 bash demo/run.sh ) >> $log 2>&1; with=$?
echo "rc=$with" | tee -a $log
if [ "$skip" != "--skip-suite" ]; then
  echo "== test suite WITH patch" | tee -a $log
  timeout 3000 cargo nextest run --workspace --no-fail-fast --test-threads 8 --offline 2>&1 | grep -E "Summary|FAIL" | head -5 | tee -a $log
fi
git apply -R patch.diff
echo "== demo WITHOUT patch" | tee -a $log
( [ -f demo/run.sh ] && timeout 1200 bash demo/run.sh ) >> $log 2>&1; without=$?
echo "rc=$without" | tee -a $log
git apply patch.diff
echo "demo_with_patch_rc=$with demo_without_patch_rc=$without" | tee -a $log
# run checks against the change in /repo
cd /repo && git diff --quiet || { echo "/repo dirty"; exit 2; }
git apply $out/patch.diff || { echo "patch does not apply to /repo" | tee -a $log; exit 2; }
cd /verif
: > $out/checks.log
for p in $(python3 -c "import json;print(' '.join(c['property_id'] for c in json.load(open('/verif/MANIFEST.json'))['checks']))"); do
  ./check $p > /tmp/seed_check_$p.log 2>&1; rc=$?
  echo "$p rc=$rc $(grep -c '^VIOLATION' /tmp/seed_check_$p.log) violation(s)" >> $out/checks.log
  if [ $rc -ne 0 ]; then grep -B1 "^VIOLATION" /tmp/seed_check_$p.log | grep -v "^VIOLATION" | grep -v "^--" | cut -c1-400 >> $out/checks.log; fi
  rm -f /tmp/seed_check_$p.log
done
git -C /repo checkout -- .
git -C /verif checkout -- evidence 2>/dev/null
cat $out/checks.log | grep -v "rc=0"
