#!/bin/bash
# usage: seed_confirm.sh <seed-id> <worktree>
# Confirms a seeded change in its scratch worktree (demo fails with it / passes without it, unedited suite passes with it)
# and copies its artefacts to /verif/seeded/<seed-id>/ (patch.diff, demo/, agent_meta.json, confirm.log).
set -u
id=$1; wt=$2
out=/verif/seeded/$id
mkdir -p $out
cp $wt/patch.diff $out/patch.diff
rm -rf $out/demo; cp -r $wt/demo $out/demo
cp $wt/meta.json $out/agent_meta.json 2>/dev/null
cd $wt || exit 2
export CARGO_NET_OFFLINE=true CARGO_TARGET_DIR=$wt/target
log=$out/confirm.log; : > $log
git diff -- crates > $wt/.seed_cur.diff
if ! diff -q $wt/.seed_cur.diff patch.diff >/dev/null; then echo "worktree diff != patch.diff; resetting and applying patch" | tee -a $log; git checkout -- crates; git apply patch.diff || { echo "PATCH DOES NOT APPLY" | tee -a $log; exit 2; }; fi
rm -f $wt/.seed_cur.diff
run=$(ls demo/run.sh 2>/dev/null)
echo "== demo WITH patch" | tee -a $log
( [ -n "$run" ] && timeout 2400 bash demo/run.sh ) >> $log 2>&1; with=$?
echo "rc=$with" | tee -a $log
echo "== test suite WITH patch" | tee -a $log
timeout 4000 cargo nextest run --workspace --no-fail-fast --test-threads ${SEED_THREADS:-8} --offline 2>&1 | grep -E "Summary|FAIL" | head -5 | tee -a $log
git apply -R patch.diff
echo "== demo WITHOUT patch" | tee -a $log
( [ -n "$run" ] && timeout 2400 bash demo/run.sh ) >> $log 2>&1; without=$?
echo "rc=$without" | tee -a $log
git apply patch.diff
echo "demo_with_patch_rc=$with demo_without_patch_rc=$without" | tee -a $log
