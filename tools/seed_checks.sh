#!/bin/bash
# usage: seed_checks.sh <seed-id> [label]      (VERIF_DIR=<frozen copy of /verif> to run the rules of another checkout)
# Applies /verif/seeded/<seed-id>/patch.diff to /repo, runs every registered quick check, restores /repo.
# Writes /verif/seeded/<seed-id>/checks[-label].log  (one line per property, plus the violation texts).
set -u
id=$1; label=${2:-}
out=/verif/seeded/$id
log=$out/checks${label:+-$label}.log
cd /repo && git diff --quiet || { echo "/repo dirty"; exit 2; }
git apply $out/patch.diff || { echo "patch does not apply to /repo"; exit 2; }
trap 'git -C /repo checkout -- .' EXIT
cd ${VERIF_DIR:-/verif}
: > $log
for p in $(python3 -c "import json;print(' '.join(c['property_id'] for c in json.load(open('MANIFEST.json'))['checks']))"); do
  tmp=$(mktemp)
  ./check $p > $tmp 2>&1; rc=$?
  echo "$p rc=$rc $(grep -c '^VIOLATION' $tmp) violation(s)" >> $log
  if [ $rc -ne 0 ]; then grep -B1 "^VIOLATION" $tmp | grep -v "^VIOLATION" | grep -v "^--" | cut -c1-1500 >> $log; grep "CHECKER ERROR" $tmp | head -3 >> $log; fi
  rm -f $tmp
done
git -C ${VERIF_DIR:-/verif} checkout -- evidence 2>/dev/null
grep -v "rc=0" $log
