#!/usr/bin/env python3
"""Fills `caught_by` (property -> rule ids, from checks.log) and `missed_by_baseline` into every seeded/<id>/meta.json."""
import glob
import json
import os
import re
import sys

sys.path.insert(0, os.path.dirname(os.path.abspath(__file__)))
from gen_design_tables import parse_log  # noqa: E402

V = os.path.dirname(os.path.dirname(os.path.abspath(__file__)))
for d in sorted(x for x in glob.glob(os.path.join(V, "seeded", "*")) if os.path.isdir(x)):
    mp = os.path.join(d, "meta.json")
    if not os.path.exists(mp):
        continue
    m = json.load(open(mp))
    cur = parse_log(os.path.join(d, "checks.log"))
    base = parse_log(os.path.join(d, "checks-baseline.log"))
    if cur is not None:
        m["caught_by"] = {p: sorted({k.split("|")[0] for k in keys}) for p, keys in cur.items() if keys}
    if base is not None:
        m["caught_by_baseline_rules"] = {p: sorted({k.split("|")[0] for k in keys}) for p, keys in base.items() if keys}
    json.dump(m, open(mp, "w"), indent=1)
    print(os.path.basename(d), m.get("caught_by"), "| baseline:", m.get("caught_by_baseline_rules"))
