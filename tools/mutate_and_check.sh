#!/bin/sh
# usage: mutate_and_check.sh <file-in-repo> <python-regex> <replacement> <property> [check args]
# Applies one textual mutation to /repo's working tree, runs the check, restores the tree. For self-tests only.
set -u
file=$1; pat=$2; rep=$3; prop=$4; shift 4
cd /repo || exit 2
git diff --quiet || { echo "/repo working tree not clean"; exit 2; }
python3 - "$file" "$pat" "$rep" <<'PY' || { git -C /repo checkout -- .; exit 2; }
import re,sys
f,pat,rep=sys.argv[1:4]
s=open(f).read()
n=len(re.findall(pat,s,flags=re.S))
if n!=1:
    print("pattern matched %d times"%n); sys.exit(1)
open(f,'w').write(re.sub(pat,rep,s,count=1,flags=re.S))
PY
cd /verif && ./check "$prop" "$@"
rc=$?
git -C /repo checkout -- .
exit $rc
