#!/usr/bin/env python3
"""Regenerate MANIFEST.json from vlib/registry.py (single source of truth for the claims)."""
import json
import os
import sys

sys.path.insert(0, os.path.dirname(os.path.abspath(__file__)))
from vlib.registry import REGISTRY, NOT_APPLICABLE  # noqa: E402

BASELINE = "cd /repo && (cargo nextest run --workspace --no-fail-fast --test-threads 8 --offline || cargo test --workspace --no-fail-fast --offline)"

m = {
    "version": 1,
    "setup_cmd": "./setup.sh",
    "hooks": {
        "guard": "grass_verif",
        "enable": "none needed: the checks analyse /repo's sources with a rustc driver (RUSTC_WORKSPACE_WRAPPER) and need no instrumentation; no cfg(grass_verif) code exists in /repo",
        "baseline_off_cmd": BASELINE,
        "source_commits": [],
        "add_only": True,
    },
    "engines": [
        {"name": "grass-facts", "path": "driver/", "serves_properties": sorted(REGISTRY), "kind_free_text": "rustc_private driver (nightly): dumps type-checked HIR facts and MIR with resolved callees for every workspace crate built from /repo's current tree"},
        {"name": "rule engine", "path": "vlib/", "serves_properties": sorted(REGISTRY), "kind_free_text": "Python: call graph, CFG/dominators, guard dominance, pairing, table extraction, source->sink flow, lexer-progress abstract interpretation over the MIR facts"},
    ],
    "checks": [],
    "not_applicable": [{"property_id": k, "reason": v} for k, v in sorted(NOT_APPLICABLE.items()) if k not in REGISTRY],
    "notes": "All checks are static analyses of /repo's current working tree (no grass code is executed). Each claims only the structural clauses named in level_claimed.text; see DESIGN.md. Known genuine defects are listed in known_findings.json and reported as KNOWN-FINDING lines.",
}
for pid in sorted(REGISTRY):
    s = REGISTRY[pid]
    m["checks"].append(
        {
            "property_id": pid,
            "quick_cmd": "./check %s --tier quick" % pid,
            "thorough_cmd": "./check %s --tier thorough" % pid,
            "evidence_file": "evidence/%s.json" % pid,
            "replay_cmd_template": "./check %s --replay {path}" % pid,
            "engine": "grass-facts + rule engine",
            "level_claimed": {"category": s.get("level", "other"), "text": s["claim"], "design_ref": "DESIGN.md §3 %s" % pid},
            "level_note": s.get("note", "Trusted: rustc's HIR/MIR construction and trait resolution, the fact serialisation of the driver, std contracts of named std functions, the hand-written spec tables (E3). A pass covers the named clauses only, not the behaviour as a whole."),
            "technique": s["technique"],
        }
    )
with open(os.path.join(os.path.dirname(os.path.abspath(__file__)), "MANIFEST.json"), "w") as fh:
    json.dump(m, fh, indent=1)
print("MANIFEST.json: %d checks, %d not_applicable" % (len(m["checks"]), len(m["not_applicable"])))
