#!/bin/sh
# Build the grass-facts rustc driver (nightly, rustc_private, zero cargo dependencies) offline.
set -e
cd "$(dirname "$0")/driver"
CARGO_NET_OFFLINE=true cargo build --offline
test -x target/debug/grass-facts
