//! Minimal JSON value + serializer (the driver has zero cargo dependencies).
use std::fmt;

pub enum J {
    Null,
    Bool(bool),
    Int(i64),
    Str(String),
    Arr(Vec<J>),
    Obj(Vec<(String, J)>),
}

impl J {
    pub fn obj() -> J {
        J::Obj(Vec::new())
    }
    pub fn s(s: &str) -> J {
        J::Str(s.to_string())
    }
    pub fn i(i: i64) -> J {
        J::Int(i)
    }
    pub fn b(b: bool) -> J {
        J::Bool(b)
    }
    pub fn put(&mut self, k: &str, v: J) {
        if let J::Obj(m) = self {
            m.push((k.to_string(), v));
        }
    }
}

fn esc(s: &str, f: &mut fmt::Formatter<'_>) -> fmt::Result {
    f.write_str("\"")?;
    for c in s.chars() {
        match c {
            '"' => f.write_str("\\\"")?,
            '\\' => f.write_str("\\\\")?,
            '\n' => f.write_str("\\n")?,
            '\r' => f.write_str("\\r")?,
            '\t' => f.write_str("\\t")?,
            c if (c as u32) < 0x20 => write!(f, "\\u{:04x}", c as u32)?,
            c => write!(f, "{}", c)?,
        }
    }
    f.write_str("\"")
}

impl fmt::Display for J {
    fn fmt(&self, f: &mut fmt::Formatter<'_>) -> fmt::Result {
        match self {
            J::Null => f.write_str("null"),
            J::Bool(b) => write!(f, "{}", b),
            J::Int(i) => write!(f, "{}", i),
            J::Str(s) => esc(s, f),
            J::Arr(a) => {
                f.write_str("[")?;
                for (i, x) in a.iter().enumerate() {
                    if i > 0 {
                        f.write_str(",")?;
                    }
                    write!(f, "{}", x)?;
                }
                f.write_str("]")
            }
            J::Obj(m) => {
                f.write_str("{")?;
                for (i, (k, v)) in m.iter().enumerate() {
                    if i > 0 {
                        f.write_str(",")?;
                    }
                    esc(k, f)?;
                    f.write_str(":")?;
                    write!(f, "{}", v)?;
                }
                f.write_str("}")
            }
        }
    }
}
