//! grass-facts: a rustc_private driver that dumps type-checked HIR facts and MIR (as JSON)
//! for every local crate it compiles.  Injected through RUSTC_WORKSPACE_WRAPPER, so it sees
//! exactly what `cargo check` builds from /repo's current working tree.
//!
//! Output: $GRASS_FACTS_DIR/<crate_name>-<crate_type>-<pid>.json  (one write per process).
#![feature(rustc_private)]
#![allow(clippy::all)]

extern crate rustc_abi;
extern crate rustc_ast;
extern crate rustc_const_eval;
extern crate rustc_driver;
extern crate rustc_hir;
extern crate rustc_interface;
extern crate rustc_middle;
extern crate rustc_session;
extern crate rustc_span;

mod json;
use json::J;

use rustc_driver::Compilation;
use rustc_hir as hir;
use rustc_hir::def::DefKind;
use rustc_hir::def_id::{DefId, LocalDefId};
use rustc_middle::mir::{self, *};
use rustc_middle::ty::print::{with_no_trimmed_paths, with_no_visible_paths, with_resolve_crate_name};
use rustc_middle::ty::{self, Instance, Ty, TyCtxt, TypingEnv};
use rustc_span::Span;

struct Cb;

impl rustc_driver::Callbacks for Cb {
    fn after_analysis<'tcx>(
        &mut self,
        _c: &rustc_interface::interface::Compiler,
        tcx: TyCtxt<'tcx>,
    ) -> Compilation {
        let dir = match std::env::var("GRASS_FACTS_DIR") {
            Ok(d) => d,
            Err(_) => return Compilation::Continue,
        };
        let krate = tcx.crate_name(rustc_hir::def_id::LOCAL_CRATE).to_string();
        let ctype = format!("{:?}", tcx.crate_types()).replace(|c: char| !c.is_alphanumeric(), "");
        let out = with_resolve_crate_name!(with_no_visible_paths!(with_no_trimmed_paths!(dump_crate(tcx, &krate, &ctype))));
        let path = format!("{}/{}-{}-{}.json", dir, krate, ctype, std::process::id());
        let tmp = format!("{}.tmp", path);
        std::fs::write(&tmp, out.to_string()).expect("write facts");
        std::fs::rename(&tmp, &path).expect("rename facts");
        Compilation::Continue
    }
}

fn main() {
    let mut args: Vec<String> = std::env::args().collect();
    // RUSTC_WORKSPACE_WRAPPER: argv[1] is the real rustc path.
    if args.len() > 1 && (args[1].ends_with("rustc") || args[1].contains("/rustc")) {
        args.remove(1);
    }
    rustc_driver::run_compiler(&args, &mut Cb);
}

// ------------------------------------------------------------------------------------------

fn span_json(tcx: TyCtxt<'_>, sp: Span) -> J {
    let sm = tcx.sess.source_map();
    let mut o = J::obj();
    // Source location of the outermost call site (what a reader sees in the file).
    let root = sp.source_callsite();
    let lo = sm.lookup_char_pos(root.lo());
    let hi = sm.lookup_char_pos(root.hi());
    o.put("file", J::s(&format!("{}", lo.file.name.prefer_local_unconditionally())));
    o.put("l", J::i(lo.line as i64));
    o.put("c", J::i(lo.col.0 as i64 + 1));
    o.put("l2", J::i(hi.line as i64));
    o.put("c2", J::i(hi.col.0 as i64 + 1));
    if sp.from_expansion() {
        let mut names = Vec::new();
        for e in sp.macro_backtrace() {
            names.push(J::s(&e.kind.descr()));
        }
        o.put("exp", J::Arr(names));
    }
    o
}

fn ty_json<'tcx>(tcx: TyCtxt<'tcx>, t: Ty<'tcx>) -> J {
    let mut o = J::obj();
    o.put("s", J::s(&t.to_string()));
    // peel references / raw pointers / Box to find the head ADT
    let mut cur = t;
    let mut refs = 0;
    loop {
        match cur.kind() {
            ty::Ref(_, inner, _) => {
                cur = *inner;
                refs += 1;
            }
            ty::RawPtr(inner, _) => {
                cur = *inner;
                refs += 1;
            }
            _ => break,
        }
    }
    if refs > 0 {
        o.put("refs", J::i(refs));
    }
    match cur.kind() {
        ty::Adt(def, args) => {
            o.put("adt", J::s(&tcx.def_path_str(def.did())));
            let mut a = Vec::new();
            for ga in args.iter() {
                if let Some(t) = ga.as_type() {
                    a.push(J::s(&t.to_string()));
                }
            }
            if !a.is_empty() {
                o.put("args", J::Arr(a));
            }
        }
        ty::FnDef(d, _) => {
            o.put("fndef", J::s(&tcx.def_path_str(*d)));
        }
        ty::Closure(d, _) => {
            o.put("closure", J::s(&tcx.def_path_str(*d)));
        }
        ty::Dynamic(preds, ..) => {
            if let Some(p) = preds.principal_def_id() {
                o.put("dyn", J::s(&tcx.def_path_str(p)));
            }
        }
        ty::Param(p) => {
            o.put("param", J::s(&p.name.to_string()));
        }
        _ => {}
    }
    o
}

fn place_json<'tcx>(tcx: TyCtxt<'tcx>, body: &Body<'tcx>, p: &Place<'tcx>) -> J {
    let mut o = J::obj();
    o.put("l", J::i(p.local.as_usize() as i64));
    if !p.projection.is_empty() {
        let mut pj = Vec::new();
        let mut pty = mir::PlaceTy::from_ty(body.local_decls[p.local].ty);
        for elem in p.projection.iter() {
            let mut e = J::obj();
            match elem {
                ProjectionElem::Deref => {
                    e.put("k", J::s("deref"));
                }
                ProjectionElem::Field(f, fty) => {
                    e.put("k", J::s("field"));
                    e.put("i", J::i(f.as_usize() as i64));
                    // field name if ADT
                    let name = match pty.ty.kind() {
                        ty::Adt(def, _) => {
                            let v = match pty.variant_index {
                                Some(v) => Some(def.variant(v)),
                                None => {
                                    if def.is_struct() || def.is_union() {
                                        Some(def.non_enum_variant())
                                    } else {
                                        None
                                    }
                                }
                            };
                            let adt = tcx.def_path_str(def.did());
                            e.put("adt", J::s(&adt));
                            v.and_then(|v| v.fields.get(f).map(|fd| fd.name.to_string()))
                        }
                        _ => None,
                    };
                    if let Some(n) = name {
                        e.put("n", J::s(&n));
                    }
                    e.put("ty", J::s(&fty.to_string()));
                }
                ProjectionElem::Index(l) => {
                    e.put("k", J::s("index"));
                    e.put("i", J::i(l.as_usize() as i64));
                }
                ProjectionElem::ConstantIndex { offset, from_end, .. } => {
                    e.put("k", J::s("cindex"));
                    e.put("i", J::i(offset as i64));
                    e.put("from_end", J::b(from_end));
                }
                ProjectionElem::Subslice { from, to, from_end } => {
                    e.put("k", J::s("subslice"));
                    e.put("from", J::i(from as i64));
                    e.put("to", J::i(to as i64));
                    e.put("from_end", J::b(from_end));
                }
                ProjectionElem::Downcast(name, vi) => {
                    e.put("k", J::s("downcast"));
                    e.put("i", J::i(vi.as_usize() as i64));
                    let n = match name {
                        Some(s) => Some(s.to_string()),
                        None => match pty.ty.kind() {
                            ty::Adt(def, _) if def.is_enum() => Some(def.variant(vi).name.to_string()),
                            _ => None,
                        },
                    };
                    if let Some(n) = n {
                        e.put("n", J::s(&n));
                    }
                    if let ty::Adt(def, _) = pty.ty.kind() {
                        e.put("adt", J::s(&tcx.def_path_str(def.did())));
                    }
                }
                ProjectionElem::OpaqueCast(_) => {
                    e.put("k", J::s("opaque"));
                }
                ProjectionElem::UnwrapUnsafeBinder(_) => {
                    e.put("k", J::s("unwrap_binder"));
                }
            }
            pty = pty.projection_ty(tcx, elem);
            pj.push(e);
        }
        o.put("p", J::Arr(pj));
    }
    o
}

fn generic_args_json<'tcx>(args: ty::GenericArgsRef<'tcx>) -> J {
    let mut a = Vec::new();
    for ga in args.iter() {
        if let Some(t) = ga.as_type() {
            a.push(J::s(&t.to_string()));
        } else if let Some(c) = ga.as_const() {
            a.push(J::s(&format!("const {}", c)));
        }
    }
    J::Arr(a)
}

fn const_json<'tcx>(tcx: TyCtxt<'tcx>, owner: DefId, c: &ConstOperand<'tcx>) -> J {
    let mut o = J::obj();
    let ty = c.const_.ty();
    o.put("ty", J::s(&ty.to_string()));
    match ty.kind() {
        ty::FnDef(d, args) => {
            o.put("fn", J::s(&tcx.def_path_str(*d)));
            o.put("fn_args", generic_args_json(args));
            if let Some(r) = resolve(tcx, owner, *d, args) {
                o.put("res", r);
            }
            return o;
        }
        _ => {}
    }
    let tenv = TypingEnv::post_analysis(tcx, owner);
    // Only evaluate consts that are already values (no generic dependence).
    match c.const_ {
        mir::Const::Val(val, t) => {
            put_constval(tcx, &mut o, val, t);
        }
        mir::Const::Ty(_, ct) => {
            if let Some(v) = ct.try_to_value() {
                if let Some(si) = v.try_to_leaf() {
                    put_constval(tcx, &mut o, ConstValue::Scalar(mir::interpret::Scalar::Int(si)), v.ty);
                } else if let Some(bytes) = v.try_to_raw_bytes(tcx) {
                    match std::str::from_utf8(bytes) {
                        Ok(s) if matches!(v.ty.kind(), ty::Ref(_, t, _) if t.is_str()) => o.put("str", J::s(s)),
                        _ => o.put("bytes", J::Arr(bytes.iter().map(|b| J::i(*b as i64)).collect())),
                    }
                } else {
                    o.put("repr", J::s(&format!("{}", c.const_)));
                }
            } else {
                o.put("repr", J::s(&format!("{}", c.const_)));
            }
        }
        mir::Const::Unevaluated(uv, t) => {
            o.put("uneval", J::s(&tcx.def_path_str(uv.def)));
            if let Some(p) = uv.promoted {
                o.put("promoted", J::i(p.as_usize() as i64));
            }
            if !c.const_.ty().has_param_types_or_consts_compat() {
                if let Ok(val) = c.const_.eval(tcx, tenv, c.span) {
                    put_constval(tcx, &mut o, val, t);
                }
            }
        }
    }
    o
}

trait HasParamCompat {
    fn has_param_types_or_consts_compat(&self) -> bool;
}
impl<'tcx> HasParamCompat for Ty<'tcx> {
    fn has_param_types_or_consts_compat(&self) -> bool {
        use rustc_middle::ty::TypeVisitableExt;
        self.has_param()
    }
}

fn put_constval<'tcx>(tcx: TyCtxt<'tcx>, o: &mut J, val: ConstValue, t: Ty<'tcx>) {
    match val {
        ConstValue::Scalar(s) => {
            if let mir::interpret::Scalar::Int(si) = s {
                let bits = si.to_bits_unchecked();
                o.put("bits", J::s(&format!("{}", bits)));
                match t.kind() {
                    ty::Bool => o.put("v", J::b(bits != 0)),
                    ty::Char => {
                        if let Some(ch) = char::from_u32(bits as u32) {
                            o.put("v", J::s(&ch.to_string()));
                        }
                    }
                    ty::Float(ty::FloatTy::F64) => {
                        let f = f64::from_bits(bits as u64);
                        o.put("f", J::s(&format!("{:?}", f)));
                    }
                    ty::Float(ty::FloatTy::F32) => {
                        let f = f32::from_bits(bits as u32);
                        o.put("f", J::s(&format!("{:?}", f)));
                    }
                    ty::Int(_) => {
                        let size = si.size();
                        let v = size.sign_extend(bits);
                        o.put("v", J::s(&format!("{}", v)));
                    }
                    ty::Uint(_) => o.put("v", J::s(&format!("{}", bits))),
                    _ => {}
                }
            } else if let mir::interpret::Scalar::Ptr(ptr, _) = s {
                o.put("ptr", J::b(true));
                {
                    let (prov, _) = ptr.into_raw_parts();
                    if let mir::interpret::GlobalAlloc::Static(sdid) = tcx.global_alloc(prov.alloc_id()) {
                        o.put("static", J::s(&tcx.def_path_str(sdid)));
                    }
                }
                // `&[u8; N]` (format_args! templates, byte strings) and `&str`-like pointees: read the bytes
                if let Some(inner) = t.builtin_deref(true) {
                    if let ty::Array(elem, len) = inner.kind() {
                        if matches!(elem.kind(), ty::Uint(ty::UintTy::U8)) {
                            if let Some(n) = len.try_to_target_usize(tcx) {
                                let (prov, offset) = ptr.into_raw_parts();
                                if let mir::interpret::GlobalAlloc::Memory(a) = tcx.global_alloc(prov.alloc_id()) {
                                    let start = offset.bytes_usize();
                                    let end = start + n as usize;
                                    let alloc = a.inner();
                                    if end <= alloc.len() {
                                        let bytes = alloc.inspect_with_uninit_and_ptr_outside_interpreter(start..end);
                                        o.put("bytes", J::Arr(bytes.iter().map(|b| J::i(*b as i64)).collect()));
                                    }
                                }
                            }
                        }
                    }
                }
            }
        }
        ConstValue::ZeroSized => {
            o.put("zst", J::b(true));
        }
        ConstValue::Slice { .. } => {
            if let Some(bytes) = val.try_get_slice_bytes_for_diagnostics(tcx) {
                match std::str::from_utf8(bytes) {
                    Ok(s) => o.put("str", J::s(s)),
                    Err(_) => {
                        o.put("bytes", J::Arr(bytes.iter().map(|b| J::i(*b as i64)).collect()))
                    }
                }
            }
        }
        ConstValue::Indirect { .. } => {
            o.put("indirect", J::b(true));
        }
    }
}

fn resolve<'tcx>(
    tcx: TyCtxt<'tcx>,
    owner: DefId,
    d: DefId,
    args: ty::GenericArgsRef<'tcx>,
) -> Option<J> {
    let tenv = TypingEnv::post_analysis(tcx, owner);
    let args = tcx.try_normalize_erasing_regions(tenv, rustc_middle::ty::Unnormalized::new_wip(args)).ok()?;
    match Instance::try_resolve(tcx, tenv, d, args) {
        Ok(Some(inst)) => {
            let rd = inst.def_id();
            let mut o = J::obj();
            o.put("fn", J::s(&tcx.def_path_str(rd)));
            o.put("kind", J::s(match inst.def {
                ty::InstanceKind::Item(_) => "item",
                ty::InstanceKind::Virtual(..) => "virtual",
                ty::InstanceKind::Intrinsic(_) => "intrinsic",
                ty::InstanceKind::ClosureOnceShim { .. } => "closure_once",
                ty::InstanceKind::FnPtrShim(..) => "fnptr_shim",
                ty::InstanceKind::ReifyShim(..) => "reify",
                ty::InstanceKind::DropGlue(..) => "drop_glue",
                ty::InstanceKind::CloneShim(..) => "clone_shim",
                _ => "other",
            }));
            o.put("args", generic_args_json(inst.args));
            Some(o)
        }
        _ => None,
    }
}

fn operand_json<'tcx>(tcx: TyCtxt<'tcx>, owner: DefId, body: &Body<'tcx>, op: &Operand<'tcx>) -> J {
    let mut o = J::obj();
    match op {
        Operand::Copy(p) => {
            o.put("k", J::s("copy"));
            o.put("p", place_json(tcx, body, p));
        }
        Operand::Move(p) => {
            o.put("k", J::s("move"));
            o.put("p", place_json(tcx, body, p));
        }
        Operand::Constant(c) => {
            o.put("k", J::s("const"));
            o.put("c", const_json(tcx, owner, c));
        }
        _ => {
            o.put("k", J::s("runtime_checks"));
        }
    }
    o
}

fn rvalue_json<'tcx>(tcx: TyCtxt<'tcx>, owner: DefId, body: &Body<'tcx>, rv: &Rvalue<'tcx>) -> J {
    let mut o = J::obj();
    match rv {
        Rvalue::Use(op, ..) => {
            o.put("k", J::s("use"));
            o.put("op", operand_json(tcx, owner, body, op));
        }
        Rvalue::Repeat(op, n) => {
            o.put("k", J::s("repeat"));
            o.put("op", operand_json(tcx, owner, body, op));
            o.put("n", J::s(&format!("{}", n)));
        }
        Rvalue::Ref(_, bk, p) => {
            o.put("k", J::s("ref"));
            o.put(
                "mut",
                J::b(matches!(bk, BorrowKind::Mut { .. })),
            );
            o.put("p", place_json(tcx, body, p));
        }
        Rvalue::ThreadLocalRef(d) => {
            o.put("k", J::s("tlref"));
            o.put("def", J::s(&tcx.def_path_str(*d)));
        }
        Rvalue::RawPtr(k, p) => {
            o.put("k", J::s("rawptr"));
            o.put("mut", J::b(matches!(k, RawPtrKind::Mut)));
            o.put("p", place_json(tcx, body, p));
        }
        Rvalue::Cast(kind, op, t) => {
            o.put("k", J::s("cast"));
            o.put("cast", J::s(&format!("{:?}", kind)));
            o.put("op", operand_json(tcx, owner, body, op));
            o.put("ty", J::s(&t.to_string()));
        }
        Rvalue::BinaryOp(bop, ops) => {
            o.put("k", J::s("binop"));
            o.put("op", J::s(&format!("{:?}", bop)));
            o.put("a", operand_json(tcx, owner, body, &ops.0));
            o.put("b", operand_json(tcx, owner, body, &ops.1));
        }
        Rvalue::UnaryOp(uop, op) => {
            o.put("k", J::s("unop"));
            o.put("op", J::s(&format!("{:?}", uop)));
            o.put("a", operand_json(tcx, owner, body, op));
        }
        Rvalue::Discriminant(p) => {
            o.put("k", J::s("discr"));
            o.put("p", place_json(tcx, body, p));
            let pty = p.ty(body, tcx).ty;
            if let ty::Adt(def, _) = pty.kind() {
                if def.is_enum() {
                    o.put("adt", J::s(&tcx.def_path_str(def.did())));
                    let mut vs = J::obj();
                    for (vi, d) in def.discriminants(tcx) {
                        vs.put(&format!("{}", d.val), J::s(&def.variant(vi).name.to_string()));
                    }
                    o.put("variants", vs);
                }
            }
        }
        Rvalue::Aggregate(kind, ops) => {
            o.put("k", J::s("agg"));
            match &**kind {
                AggregateKind::Array(t) => {
                    o.put("agg", J::s("array"));
                    o.put("ty", J::s(&t.to_string()));
                }
                AggregateKind::Tuple => {
                    o.put("agg", J::s("tuple"));
                }
                AggregateKind::Adt(d, vi, _, _, _) => {
                    o.put("agg", J::s("adt"));
                    let def = tcx.adt_def(*d);
                    o.put("adt", J::s(&tcx.def_path_str(*d)));
                    let v = def.variant(*vi);
                    o.put("variant", J::s(&v.name.to_string()));
                    o.put(
                        "fields",
                        J::Arr(v.fields.iter().map(|f| J::s(&f.name.to_string())).collect()),
                    );
                }
                AggregateKind::Closure(d, _) => {
                    o.put("agg", J::s("closure"));
                    o.put("def", J::s(&tcx.def_path_str(*d)));
                }
                AggregateKind::Coroutine(d, _) | AggregateKind::CoroutineClosure(d, _) => {
                    o.put("agg", J::s("coroutine"));
                    o.put("def", J::s(&tcx.def_path_str(*d)));
                }
                AggregateKind::RawPtr(..) => {
                    o.put("agg", J::s("rawptr"));
                }
            }
            o.put("ops", J::Arr(ops.iter().map(|x| operand_json(tcx, owner, body, x)).collect()));
        }
        Rvalue::CopyForDeref(p) => {
            o.put("k", J::s("copy_for_deref"));
            o.put("p", place_json(tcx, body, p));
        }
        Rvalue::WrapUnsafeBinder(op, _) => {
            o.put("k", J::s("wrap_binder"));
            o.put("op", operand_json(tcx, owner, body, op));
        }
    }
    o
}

fn bb(b: BasicBlock) -> J {
    J::i(b.as_usize() as i64)
}

fn unwind_json(u: &UnwindAction) -> J {
    match u {
        UnwindAction::Cleanup(b) => bb(*b),
        _ => J::Null,
    }
}

fn term_json<'tcx>(tcx: TyCtxt<'tcx>, owner: DefId, body: &Body<'tcx>, t: &Terminator<'tcx>) -> J {
    let mut o = J::obj();
    o.put("span", span_json(tcx, t.source_info.span));
    match &t.kind {
        TerminatorKind::Goto { target } => {
            o.put("k", J::s("goto"));
            o.put("t", bb(*target));
        }
        TerminatorKind::SwitchInt { discr, targets } => {
            o.put("k", J::s("switch"));
            o.put("d", operand_json(tcx, owner, body, discr));
            o.put("dty", J::s(&discr.ty(body, tcx).to_string()));
            let mut ts = Vec::new();
            for (v, b) in targets.iter() {
                ts.push(J::Arr(vec![J::s(&format!("{}", v)), bb(b)]));
            }
            o.put("ts", J::Arr(ts));
            o.put("else", bb(targets.otherwise()));
        }
        TerminatorKind::UnwindResume => o.put("k", J::s("resume")),
        TerminatorKind::UnwindTerminate(_) => o.put("k", J::s("terminate")),
        TerminatorKind::Return => o.put("k", J::s("return")),
        TerminatorKind::Unreachable => o.put("k", J::s("unreachable")),
        TerminatorKind::Drop { place, target, unwind, .. } => {
            o.put("k", J::s("drop"));
            o.put("p", place_json(tcx, body, place));
            o.put("t", bb(*target));
            o.put("u", unwind_json(unwind));
        }
        TerminatorKind::Call { func, args, destination, target, unwind, call_source, fn_span } => {
            o.put("k", J::s("call"));
            o.put("f", operand_json(tcx, owner, body, func));
            o.put(
                "args",
                J::Arr(args.iter().map(|a| operand_json(tcx, owner, body, &a.node)).collect()),
            );
            o.put("dest", place_json(tcx, body, destination));
            o.put("t", match target { Some(b) => bb(*b), None => J::Null });
            o.put("u", unwind_json(unwind));
            o.put("src", J::s(&format!("{:?}", call_source)));
            o.put("fn_span", span_json(tcx, *fn_span));
        }
        TerminatorKind::TailCall { func, args, .. } => {
            o.put("k", J::s("tailcall"));
            o.put("f", operand_json(tcx, owner, body, func));
            o.put(
                "args",
                J::Arr(args.iter().map(|a| operand_json(tcx, owner, body, &a.node)).collect()),
            );
        }
        TerminatorKind::Assert { cond, expected, msg, target, unwind } => {
            o.put("k", J::s("assert"));
            o.put("cond", operand_json(tcx, owner, body, cond));
            o.put("expected", J::b(*expected));
            let m = match &**msg {
                AssertKind::BoundsCheck { .. } => "bounds",
                AssertKind::Overflow(..) => "overflow",
                AssertKind::OverflowNeg(_) => "overflow_neg",
                AssertKind::DivisionByZero(_) => "div_zero",
                AssertKind::RemainderByZero(_) => "rem_zero",
                _ => "other",
            };
            o.put("msg", J::s(m));
            o.put("t", bb(*target));
            o.put("u", unwind_json(unwind));
        }
        TerminatorKind::Yield { .. } => o.put("k", J::s("yield")),
        TerminatorKind::CoroutineDrop => o.put("k", J::s("coroutine_drop")),
        TerminatorKind::FalseEdge { real_target, .. } => {
            o.put("k", J::s("goto"));
            o.put("t", bb(*real_target));
        }
        TerminatorKind::FalseUnwind { real_target, .. } => {
            o.put("k", J::s("goto"));
            o.put("t", bb(*real_target));
        }
        TerminatorKind::InlineAsm { .. } => o.put("k", J::s("asm")),
    }
    o
}

fn stmt_json<'tcx>(tcx: TyCtxt<'tcx>, owner: DefId, body: &Body<'tcx>, s: &Statement<'tcx>) -> Option<J> {
    let mut o = J::obj();
    match &s.kind {
        StatementKind::Assign(b) => {
            let (p, rv) = &**b;
            o.put("k", J::s("assign"));
            o.put("p", place_json(tcx, body, p));
            o.put("rv", rvalue_json(tcx, owner, body, rv));
        }
        StatementKind::SetDiscriminant { place, variant_index } => {
            o.put("k", J::s("set_discr"));
            o.put("p", place_json(tcx, body, place));
            o.put("i", J::i(variant_index.as_usize() as i64));
            let pty = place.ty(body, tcx).ty;
            if let ty::Adt(def, _) = pty.kind() {
                if def.is_enum() {
                    o.put("adt", J::s(&tcx.def_path_str(def.did())));
                    o.put("variant", J::s(&def.variant(*variant_index).name.to_string()));
                }
            }
        }
        StatementKind::Intrinsic(i) => {
            o.put("k", J::s("intrinsic"));
            o.put("d", J::s(&format!("{:?}", i)));
        }
        StatementKind::StorageDead(l) => {
            o.put("k", J::s("dead"));
            o.put("l", J::i(l.as_usize() as i64));
        }
        _ => return None,
    }
    o.put("span", span_json(tcx, s.source_info.span));
    Some(o)
}

fn owner_info<'tcx>(tcx: TyCtxt<'tcx>, did: DefId, o: &mut J) {
    // impl / trait context of an associated item (walk up through closures)
    let mut cur = did;
    loop {
        let k = tcx.def_kind(cur);
        match k {
            DefKind::Closure | DefKind::InlineConst | DefKind::AnonConst | DefKind::SyntheticCoroutineBody => {
                cur = tcx.parent(cur);
                continue;
            }
            _ => break,
        }
    }
    o.put("root", J::s(&tcx.def_path_str(cur)));
    o.put("root_name", J::s(&tcx.opt_item_name(cur).map(|s| s.to_string()).unwrap_or_default()));
    if matches!(tcx.def_kind(cur), DefKind::AssocFn | DefKind::AssocConst { .. }) {
        let parent = tcx.parent(cur);
        match tcx.def_kind(parent) {
            DefKind::Impl { of_trait } => {
                let self_ty = tcx.type_of(parent).instantiate_identity().skip_norm_wip();
                o.put("impl_self", ty_json(tcx, self_ty));
                if of_trait {
                    let tr = tcx.impl_trait_ref(parent).instantiate_identity().skip_norm_wip();
                    o.put("impl_trait", J::s(&tcx.def_path_str(tr.def_id)));
                    o.put("impl_trait_full", J::s(&tr.to_string()));
                }
            }
            DefKind::Trait => {
                o.put("trait_default", J::s(&tcx.def_path_str(parent)));
            }
            _ => {}
        }
    }
    if matches!(tcx.def_kind(cur), DefKind::Fn | DefKind::AssocFn) {
        o.put("vis", J::s(&format!("{:?}", tcx.visibility(cur))));
        o.put("pub", J::b(tcx.visibility(cur).is_public()));
    }
}

fn body_json<'tcx>(tcx: TyCtxt<'tcx>, ldid: LocalDefId) -> Option<J> {
    let did = ldid.to_def_id();
    let kind = tcx.def_kind(did);
    let body: &Body<'tcx> = match kind {
        DefKind::Fn | DefKind::AssocFn | DefKind::Closure => {
            if tcx.is_constructor(did) {
                return None;
            }
            tcx.optimized_mir(did)
        }
        DefKind::Const { .. } | DefKind::AssocConst { .. } | DefKind::Static { .. } | DefKind::InlineConst | DefKind::AnonConst => {
            tcx.mir_for_ctfe(did)
        }
        _ => return None,
    };
    let mut o = J::obj();
    o.put("path", J::s(&tcx.def_path_str(did)));
    o.put("kind", J::s(&format!("{:?}", kind)));
    o.put("span", span_json(tcx, body.span));
    owner_info(tcx, did, &mut o);
    o.put("argc", J::i(body.arg_count as i64));
    let mut locals = Vec::new();
    for (_, d) in body.local_decls.iter_enumerated() {
        locals.push(ty_json(tcx, d.ty));
    }
    o.put("locals", J::Arr(locals));
    let mut dbg = Vec::new();
    for v in &body.var_debug_info {
        let mut e = J::obj();
        e.put("name", J::s(&v.name.to_string()));
        match &v.value {
            VarDebugInfoContents::Place(p) => e.put("p", place_json(tcx, body, p)),
            VarDebugInfoContents::Const(_) => e.put("const", J::b(true)),
        }
        if let Some(a) = v.argument_index {
            e.put("arg", J::i(a as i64));
        }
        dbg.push(e);
    }
    o.put("dbg", J::Arr(dbg));
    let mut blocks = Vec::new();
    for (_, data) in body.basic_blocks.iter_enumerated() {
        let mut b = J::obj();
        let mut stmts = Vec::new();
        for s in &data.statements {
            if let Some(j) = stmt_json(tcx, did, body, s) {
                stmts.push(j);
            }
        }
        b.put("s", J::Arr(stmts));
        b.put("t", term_json(tcx, did, body, data.terminator()));
        if data.is_cleanup {
            b.put("cleanup", J::b(true));
        }
        blocks.push(b);
    }
    o.put("blocks", J::Arr(blocks));
    // promoted constants (`&Unit::None`, `&[..]` literals): tiny straight-line bodies
    if matches!(kind, DefKind::Fn | DefKind::AssocFn | DefKind::Closure | DefKind::Static { .. } | DefKind::Const { .. }) {
        let mut proms = Vec::new();
        for (_, pb) in tcx.promoted_mir(did).iter_enumerated() {
            let mut p = J::obj();
            let mut locals = Vec::new();
            for (_, d) in pb.local_decls.iter_enumerated() {
                locals.push(ty_json(tcx, d.ty));
            }
            p.put("locals", J::Arr(locals));
            let mut blocks = Vec::new();
            for (_, data) in pb.basic_blocks.iter_enumerated() {
                let mut b = J::obj();
                let mut stmts = Vec::new();
                for s in &data.statements {
                    if let Some(j) = stmt_json(tcx, did, pb, s) {
                        stmts.push(j);
                    }
                }
                b.put("s", J::Arr(stmts));
                b.put("t", term_json(tcx, did, pb, data.terminator()));
                blocks.push(b);
            }
            p.put("blocks", J::Arr(blocks));
            proms.push(p);
        }
        if !proms.is_empty() {
            o.put("promoted", J::Arr(proms));
        }
    }
    Some(o)
}

// ------------------------------------------------------------------------------------------
// HIR facts

struct UnsafeFinder<'tcx> {
    tcx: TyCtxt<'tcx>,
    out: Vec<J>,
    owner: String,
}

impl<'tcx> hir::intravisit::Visitor<'tcx> for UnsafeFinder<'tcx> {
    fn visit_block(&mut self, b: &'tcx hir::Block<'tcx>) {
        if let hir::BlockCheckMode::UnsafeBlock(hir::UnsafeSource::UserProvided) = b.rules {
            let mut o = J::obj();
            o.put("fn", J::s(&self.owner));
            o.put("span", span_json(self.tcx, b.span));
            self.out.push(o);
        }
        hir::intravisit::walk_block(self, b);
    }
}

fn hir_json<'tcx>(tcx: TyCtxt<'tcx>) -> J {
    let mut o = J::obj();
    let mut structs = Vec::new();
    let mut enums = Vec::new();
    let mut statics = Vec::new();
    let mut consts = Vec::new();
    let mut impls = Vec::new();
    let mut traits = Vec::new();
    let mut fns = Vec::new();
    let mut unsafe_blocks = Vec::new();
    let mut unsafe_impls = Vec::new();

    for id in tcx.hir_free_items() {
        let item = tcx.hir_item(id);
        let did = item.owner_id.to_def_id();
        let path = tcx.def_path_str(did);
        match &item.kind {
            hir::ItemKind::Struct(..) | hir::ItemKind::Union(..) => {
                let def = tcx.adt_def(did);
                let mut s = J::obj();
                s.put("path", J::s(&path));
                s.put("pub", J::b(tcx.visibility(did).is_public()));
                let mut fs = Vec::new();
                for f in def.non_enum_variant().fields.iter() {
                    let mut fj = J::obj();
                    fj.put("name", J::s(&f.name.to_string()));
                    fj.put("vis", J::s(&format!("{:?}", f.vis)));
                    fj.put("pub", J::b(f.vis.is_public()));
                    fj.put("ty", ty_json(tcx, tcx.type_of(f.did).instantiate_identity().skip_norm_wip()));
                    fs.push(fj);
                }
                s.put("fields", J::Arr(fs));
                s.put("span", span_json(tcx, item.span));
                structs.push(s);
            }
            hir::ItemKind::Enum(..) => {
                let def = tcx.adt_def(did);
                let mut s = J::obj();
                s.put("path", J::s(&path));
                let mut vs = Vec::new();
                for (vi, d) in def.discriminants(tcx) {
                    let v = def.variant(vi);
                    let mut vj = J::obj();
                    vj.put("name", J::s(&v.name.to_string()));
                    vj.put("discr", J::s(&format!("{}", d.val)));
                    vj.put(
                        "fields",
                        J::Arr(
                            v.fields
                                .iter()
                                .map(|f| {
                                    let mut fj = J::obj();
                                    fj.put("name", J::s(&f.name.to_string()));
                                    fj.put("ty", J::s(&tcx.type_of(f.did).instantiate_identity().skip_norm_wip().to_string()));
                                    fj
                                })
                                .collect(),
                        ),
                    );
                    vs.push(vj);
                }
                s.put("variants", J::Arr(vs));
                enums.push(s);
            }
            hir::ItemKind::Static(m, ..) => {
                let mut s = J::obj();
                s.put("path", J::s(&path));
                s.put("mut", J::b(matches!(m, hir::Mutability::Mut)));
                s.put("ty", ty_json(tcx, tcx.type_of(did).instantiate_identity().skip_norm_wip()));
                s.put("span", span_json(tcx, item.span));
                s.put("thread_local", J::b(tcx.is_thread_local_static(did)));
                statics.push(s);
            }
            hir::ItemKind::Const(..) => {
                let mut s = J::obj();
                s.put("path", J::s(&path));
                s.put("ty", ty_json(tcx, tcx.type_of(did).instantiate_identity().skip_norm_wip()));
                s.put("span", span_json(tcx, item.span));
                consts.push(s);
            }
            hir::ItemKind::Impl(imp) => {
                let mut s = J::obj();
                s.put("path", J::s(&path));
                let self_ty = tcx.type_of(did).instantiate_identity().skip_norm_wip();
                s.put("self", ty_json(tcx, self_ty));
                if imp.of_trait.is_some() {
                    let tr = tcx.impl_trait_ref(did).instantiate_identity().skip_norm_wip();
                    s.put("trait", J::s(&tcx.def_path_str(tr.def_id)));
                    s.put("trait_full", J::s(&tr.to_string()));
                    if let Some(ot) = imp.of_trait {
                        if matches!(ot.safety, hir::Safety::Unsafe) {
                            unsafe_impls.push(J::s(&path));
                        }
                    }
                }
                let mut items = Vec::new();
                for ii in imp.items {
                    let idid = ii.owner_id.to_def_id();
                    let mut ij = J::obj();
                    ij.put("name", J::s(&tcx.item_name(idid).to_string()));
                    ij.put("kind", J::s(&format!("{:?}", tcx.def_kind(idid))));
                    ij.put("path", J::s(&tcx.def_path_str(idid)));
                    items.push(ij);
                }
                s.put("items", J::Arr(items));
                s.put("span", span_json(tcx, item.span));
                impls.push(s);
            }
            hir::ItemKind::Trait { .. } => {
                let mut s = J::obj();
                s.put("path", J::s(&path));
                let mut items = Vec::new();
                for ai in tcx.associated_items(did).in_definition_order() {
                    let mut ij = J::obj();
                    ij.put("name", J::s(&ai.name().to_string()));
                    ij.put("kind", J::s(&format!("{:?}", tcx.def_kind(ai.def_id))));
                    ij.put("default", J::b(ai.defaultness(tcx).has_value()));
                    items.push(ij);
                }
                s.put("items", J::Arr(items));
                traits.push(s);
            }
            _ => {}
        }
    }

    for ldid in tcx.hir_body_owners() {
        let did = ldid.to_def_id();
        let k = tcx.def_kind(did);
        if matches!(k, DefKind::Fn | DefKind::AssocFn) {
            let mut f = J::obj();
            f.put("path", J::s(&tcx.def_path_str(did)));
            f.put("name", J::s(&tcx.item_name(did).to_string()));
            f.put("pub", J::b(tcx.visibility(did).is_public()));
            f.put("vis", J::s(&format!("{:?}", tcx.visibility(did))));
            let sig = tcx.fn_sig(did).instantiate_identity().skip_norm_wip().skip_binder();
            f.put("ret", ty_json(tcx, sig.output()));
            f.put("inputs", J::Arr(sig.inputs().iter().map(|t| ty_json(tcx, *t)).collect()));
            f.put("unsafe", J::b(matches!(sig.safety(), hir::Safety::Unsafe)));
            let hir_id = tcx.local_def_id_to_hir_id(ldid);
            f.put("span", span_json(tcx, tcx.hir_span(hir_id)));
            fns.push(f);
        }
        if matches!(k, DefKind::Fn | DefKind::AssocFn | DefKind::Closure | DefKind::Const { .. } | DefKind::Static { .. } | DefKind::AssocConst { .. }) {
            let body = tcx.hir_body_owned_by(ldid);
            let mut uf = UnsafeFinder { tcx, out: Vec::new(), owner: tcx.def_path_str(did) };
            if !matches!(k, DefKind::Closure) {
                hir::intravisit::Visitor::visit_body(&mut uf, body);
                unsafe_blocks.extend(uf.out);
            }
        }
    }

    o.put("structs", J::Arr(structs));
    o.put("enums", J::Arr(enums));
    o.put("statics", J::Arr(statics));
    o.put("consts", J::Arr(consts));
    o.put("impls", J::Arr(impls));
    o.put("traits", J::Arr(traits));
    o.put("fns", J::Arr(fns));
    o.put("unsafe_blocks", J::Arr(unsafe_blocks));
    o.put("unsafe_impls", J::Arr(unsafe_impls));
    o
}

fn dump_crate<'tcx>(tcx: TyCtxt<'tcx>, krate: &str, ctype: &str) -> J {
    let mut o = J::obj();
    o.put("crate", J::s(krate));
    o.put("crate_type", J::s(ctype));
    let mut cfgs = Vec::new();
    for (k, v) in tcx.sess.config.iter() {
        if let Some(v) = v {
            if k.as_str() == "feature" {
                cfgs.push(J::s(&v.to_string()));
            }
        }
    }
    o.put("features", J::Arr(cfgs));
    o.put("debug_assertions", J::b(tcx.sess.opts.debug_assertions));
    let mut bodies = Vec::new();
    for ldid in tcx.hir_body_owners() {
        if let Some(b) = body_json(tcx, ldid) {
            bodies.push(b);
        }
    }
    o.put("bodies", J::Arr(bodies));
    o.put("hir", hir_json(tcx));
    o
}
