"""C09 — equality is an equivalence consistent with !=, map keys and index() (structural clauses)."""
from ..core import RuleResult
from ..facts import AnchorMissing, Operand, Place
from ..facts import Call as Call_
from .. import an, psa
from . import common

VALUE_EQ = "<grass_compiler::value::Value as std::cmp::PartialEq>::eq"


ENTRY = {}  # (v1, v2) -> entry block of the arm that handles exactly this pair (filled by the last pair_matrix call)


def arm_signature(prog, body, entry):
    """What an arm compares: {('cmp', type), ('len',), ('rec',)} over the blocks reachable from its entry (and the closures built there)."""
    from ..facts import norm
    region = common.reach_from(body, entry)
    sig = set()
    bodies = [(body, region)]
    for bb, i, pl, rv, st in body.assignments():
        if bb in region and rv["k"] == "agg" and rv.get("agg") == "closure":
            cb = prog.bodies.get(norm(rv["def"]))
            if cb is not None:
                bodies.append((cb, None))
    for b_, reg in bodies:
        for c in b_.calls():
            if reg is not None and c.bb not in reg:
                continue
            t2 = an.tail2(c.callee)
            nm = c.name() or ""
            if nm.endswith("value::Value::not_equals") or nm == VALUE_EQ or (t2 in ("PartialEq::eq", "PartialEq::ne") and c.fn_args and c.fn_args[0].lstrip("&").endswith("value::Value")):
                sig.add(("rec",))
            elif t2 in ("PartialEq::eq", "PartialEq::ne") and c.fn_args:
                sig.add(("cmp", c.fn_args[0].lstrip("&").split("<")[0].rsplit("::", 1)[-1]))
        for bb, i, pl, rv, st in b_.assignments():
            if reg is not None and bb not in reg:
                continue
            if rv["k"] == "binop" and rv["op"] in ("Eq", "Ne"):
                for side in ("a", "b"):
                    src = an.trace_operand(b_, Operand(rv[side]))
                    if src.root[0] == "call" and an.tail2(src.root[1]) in ("Vec::len", "slice::len", "<[T]>::len") or "len()" in repr(src):
                        sig.add(("len",))
    return sig


def pair_matrix(body, want_const):
    """For a two-level `match self { V1 => match other { V2 => .. } }`:
    {(v1, v2): 'const' if the result is the constant `want_const` on every path of that pair, else 'maybe'}.
    Pairs not distinguished by an inner match inherit the arm's verdict."""
    outer = None
    for sw, ap, adt, variants, rv in common.discr_switches(body):
        if ap.root == ("arg", 1) and (adt or "").endswith("value::Value"):
            outer = (sw, variants)
            break
    if outer is None:
        raise AnchorMissing("%s does not start with a match on self" % body.path)
    sw, variants = outer
    names = list(variants.values())
    arms = common.switch_arms(body, sw, variants)
    M = {}
    ENTRY.clear()
    for v1 in names:
        t1 = arms[v1]
        region = common.reach_from(body, t1)
        # inner switches on other's discriminant inside this arm (first one in RPO order that is in the region and
        # dominated by t1)
        inner = None
        order = {b: i for i, b in enumerate(body.rpo())}
        cands = []
        for sw2, ap2, adt2, var2, rv2 in common.discr_switches(body):
            if sw2 in region and ap2.root == ("arg", 2) and (adt2 or "").endswith("value::Value") and sw2 != sw:
                if body.dominates(t1, sw2) or t1 == sw2:
                    cands.append((order.get(sw2, 1 << 30), sw2, var2))
        shared = sum(1 for x in arms.values() if x == t1) - (1 if arms.get("_") == t1 else 0)
        if cands and shared <= 1:
            cands.sort()
            _, sw2, var2 = cands[0]
            arms2 = common.switch_arms(body, sw2, var2)
            # paths from t1 to sw2 that bypass it (e.g. a match guard failing) make the whole arm 'maybe'
            for v2 in names:
                t2 = arms2.get(v2, arms2["_"])
                vals = common.ret_consts_from(body, t2, limit=400)
                M[(v1, v2)] = "const" if vals == {want_const} else "maybe"
                if v2 in arms2:
                    ENTRY[(v1, v2)] = t2
            # bypass check
            bypass = common.reach_from_avoiding(body, t1, {sw2})
            exits = {b for b in bypass if body.term(b)["k"] == "return"}
            if exits:
                for v2 in names:
                    if M[(v1, v2)] == "const":
                        vals = common.ret_consts_from_avoiding(body, t1, {sw2})
                        if vals - {want_const}:
                            M[(v1, v2)] = "maybe"
        else:
            vals = common.ret_consts_from(body, t1, limit=400)
            for v2 in names:
                M[(v1, v2)] = "const" if vals == {want_const} else "maybe"
    return M, names


def rule_a(ctx):
    r = RuleResult("C09-a", "variant-pair structure of Value::eq is symmetric and Value::not_equals is its complement pattern")
    prog = ctx.prog()
    eq = prog.one(VALUE_EQ)
    M, names = pair_matrix(eq, False)
    n = 0
    for i, a in enumerate(names):
        for b in names[i:]:
            n += 1
            key = "eq|%s|%s" % (a, b)
            if M[(a, b)] == M[(b, a)]:
                r.ok(key, pair=M[(a, b)])
            else:
                t, f = ((a, b), (b, a)) if M[(a, b)] == "maybe" else ((b, a), (a, b))
                r.violate(key, "Value::eq is not symmetric on variants: (%s == %s) can be true but (%s == %s) is constant false" % (t[0], t[1], f[0], f[1]), eq.loc())
    for a in names:
        if M[(a, a)] != "maybe":
            r.violate("eq|reflexive|%s" % a, "Value::eq(%s, %s) is constant false: == is not reflexive" % (a, a), eq.loc())
    r.floor("variant pairs of Value::eq", n, 66)
    ne = prog.one("value::Value::not_equals")
    N, names2 = pair_matrix(ne, True)
    for a in names:
        for b in names:
            key = "not_equals|%s|%s" % (a, b)
            e, q = M[(a, b)], N.get((a, b))
            # eq constant-false  <=>  not_equals constant-true ; default arm of not_equals delegates to `!=`
            if q is None:
                continue
            if q == "const" and e == "maybe":
                r.violate(key, "Value::not_equals(%s, %s) is constant true although (%s == %s) can be true: map-remove disagrees with ==" % (a, b, a, b), ne.loc())
            else:
                r.ok(key)
    # where both functions handle a pair in an arm of their own, the two arms compare the same things (De Morgan duals):
    # a comparison present in == but missing from not_equals (or the reverse) makes map-remove disagree with ==
    ne_entry = dict(ENTRY)
    pair_matrix(eq, False)
    eq_entry = dict(ENTRY)
    ns = 0
    for pair in sorted(set(ne_entry) & set(eq_entry)):
        if M[pair] != "maybe" or N.get(pair) != "maybe":
            continue
        se, sn = arm_signature(prog, eq, eq_entry[pair]), arm_signature(prog, ne, ne_entry[pair])
        # reviewed equivalence: `SassNumber == SassNumber` is the unit-aware comparison of the two Numbers and Units that not_equals spells out
        for sg in (se, sn):
            if ("cmp", "SassNumber") in sg:
                sg.discard(("cmp", "SassNumber"))
                sg.update({("cmp", "Number"), ("cmp", "Unit")})
        if not se and not sn:
            continue
        ns += 1
        key = "eq-vs-not_equals|%s|%s|compared-attributes" % pair
        if se == sn:
            r.ok(key, compares=sorted(map(str, se)))
        else:
            r.violate(key, "for (%s, %s) `==` compares %s but not_equals compares %s: the two disagree on values that differ only in %s, so map-remove (not_equals) "
                      "and map-get/has-key (==) see different keys" % (pair[0], pair[1], sorted(map(str, se)), sorted(map(str, sn)), sorted(map(str, se ^ sn))), ne.loc())
    r.floor("variant pairs handled by both == and not_equals", ns, 3)
    return r


def rule_b(ctx):
    r = RuleResult("C09-b", "`!=` is exactly the negation of `==` (no PartialEq impl overrides ne; NotEqual evaluates to !eq)")
    prog = ctx.prog()
    types = ("value::Value", "value::sass_number::SassNumber", "value::number::Number", "value::map::SassMap", "color::Color",
             "value::arglist::ArgList", "value::calculation::SassCalculation", "value::calculation::CalculationArg", "unit::Unit",
             "value::sass_function::SassFunction")
    n = 0
    for crate, imp in prog.hir_items("impls"):
        if imp.get("trait") != "std::cmp::PartialEq":
            continue
        st = imp["self"].get("adt", "")
        if not any(st.endswith(t) for t in types):
            continue
        n += 1
        names = [it["name"] for it in imp["items"]]
        key = "PartialEq|%s" % st
        if "ne" in names:
            r.violate(key, "impl PartialEq for %s overrides `ne`: != may differ from !(==)" % st)
        else:
            r.ok(key, items=names)
    r.floor("PartialEq impls of value types", n, 6)
    # bin-op dispatch: Equal -> eq, NotEqual -> ne / !eq
    vb = prog.one("Visitor::visit_bin_op")
    disp = common.enum_switch_calls(vb, "common::BinaryOp")
    for var, want in (("Equal", "PartialEq::eq"), ("NotEqual", "PartialEq::ne")):
        got = {an.tail2(x) for x in disp.get(var, set())}
        key = "visit_bin_op|%s" % var
        if want in got and not ({"PartialEq::eq", "PartialEq::ne"} - {want}) & got:
            r.ok(key, calls=want)
        else:
            r.violate(key, "visit_bin_op evaluates BinaryOp::%s with %s, expected Value's %s" % (var, sorted(g for g in got if "PartialEq" in g or "equals" in g), want), vb.loc())
    return r


KEYED = {
    # function -> comparison it must use for keys
    "value::map::SassMap::get": ("PartialEq::eq",),
    "value::map::SassMap::get_ref": ("PartialEq::eq",),
    "value::map::SassMap::contains::{closure#0}": ("PartialEq::eq",),
    "value::map::SassMap::insert": ("PartialEq::eq",),
    "value::map::SassMap::remove::{closure#0}": ("Value::not_equals",),
}


def rule_c(ctx):
    r = RuleResult("C09-c", "keyed lookups (SassMap, index()) compare keys with Value's == (or not_equals, its checked complement)")
    prog = ctx.prog()
    n = 0
    for suffix, allowed in KEYED.items():
        b = prog.one(suffix)
        cmps = [c for c in b.calls() if an.tail2(c.callee) in ("PartialEq::eq", "PartialEq::ne", "Value::not_equals") or "::cmp::" in (c.callee or "")]
        key = "%s|key-comparison" % suffix
        if not cmps:
            r.violate(key, "%s no longer compares keys" % b.path, b.loc())
            continue
        for c in cmps:
            n += 1
            t2 = an.tail2(c.callee)
            # the comparison must be on Value (resolved instance) and one of the allowed relations
            on_value = any("value::Value" in (a or "") for a in (c.fn_args + c.res_args)) or "value::Value" in (c.resolved or "")
            if t2 in allowed and on_value:
                r.ok(key, relation=t2)
            else:
                r.violate(key, "%s compares keys with %s (%s), expected Value's %s" % (b.path, t2, c.resolved, "/".join(allowed)), c.loc())
    # list index(): position of the first element == value
    idx = prog.one("builtin::functions::list::index")
    fam = prog.family(idx)
    found = False
    for b in fam:
        for c in b.calls():
            if an.tail2(c.callee) in ("PartialEq::eq", "PartialEq::ne") and any("value::Value" in a for a in c.fn_args + c.res_args):
                found = True
                n += 1
                r.ok("list::index|key-comparison", relation=an.tail2(c.callee))
    if not found:
        r.violate("list::index|key-comparison", "index() does not compare elements with Value's ==", idx.loc())
    r.floor("key comparisons", n, 6)
    return r


FORBIDDEN_VEC = ("Vec::sort", "Vec::sort_by", "Vec::sort_by_key", "Vec::sort_unstable", "Vec::swap_remove", "Vec::insert", "Vec::reverse",
                 "Vec::dedup", "Vec::dedup_by", "Vec::dedup_by_key", "Vec::drain", "Vec::swap", "Vec::rotate_left", "Vec::rotate_right",
                 "Vec::truncate", "Vec::pop", "Vec::remove", "Vec::clear", "Vec::split_off", "[T]::sort", "[T]::sort_by", "[T]::reverse",
                 "[T]::swap", "[T]::sort_unstable", "[T]::sort_by_key", "[T]::rotate_left", "[T]::rotate_right")
ALLOWED_VEC = ("Vec::push", "Vec::retain", "Vec::iter", "Vec::len", "Vec::is_empty", "Vec::new", "IntoIterator::into_iter", "Deref::deref",
               "DerefMut::deref_mut", "[T]::iter", "[T]::iter_mut", "[T]::len", "[T]::is_empty", "Clone::clone", "PartialEq::eq", "Default::default",
               "Debug::fmt", "Iterator::any", "Iterator::map", "Iterator::collect", "IntoIterator::into_iter", "Vec::with_capacity", "Vec::extend", "Extend::extend")


def rule_d(ctx):
    r = RuleResult("C09-d", "SassMap keeps first-insertion order: its Vec is only pushed, retained, iterated; insert pushes only after the linear search failed")
    prog = ctx.prog()
    st = prog.struct("value::map::SassMap")
    if st["fields"][0]["pub"]:
        r.violate("SassMap|field", "SassMap's inner Vec is public: order can be disturbed from outside value/map.rs")
    else:
        r.ok("SassMap|field-private")
    n = 0
    for b in prog.bodies.values():
        for c in b.calls():
            if not c.args:
                continue
            recv = an.trace_operand(b, c.args[0])
            # receiver is the inner Vec of a SassMap: access path ends with the tuple field `.0` of a SassMap-typed place
            if not _is_sassmap_inner(b, c.args[0], recv):
                continue
            t2 = an.tail2(c.callee)
            n += 1
            key = "%s|%s" % (b.root, t2)
            if t2 in FORBIDDEN_VEC or any(t2.endswith("::" + f.split("::")[1]) and f.split("::")[1] in ("sort", "sort_by", "swap_remove", "insert", "reverse", "dedup", "drain", "swap", "truncate", "pop", "remove", "clear") for f in FORBIDDEN_VEC):
                r.violate(key, "%s applies %s to SassMap's entry vector: first-insertion order is not preserved" % (b.path, t2), c.loc())
            else:
                r.ok(key)
    r.floor("operations on SassMap's entry vector", n, 12)
    # insert: push only on the path where no existing key matched
    ins = prog.one("value::map::SassMap::insert")
    pushes = [c for c in ins.calls() if an.tail2(c.callee) == "Vec::push"]
    if len(pushes) != 1:
        r.violate("SassMap::insert|push", "SassMap::insert has %d pushes, expected exactly one" % len(pushes), ins.loc())
    else:
        p = pushes[0]
        # every path to the push passes the loop-exhausted edge: i.e. no path reaches push after a key matched (eq true)
        def classify(kind, obj, bd, sw):
            if kind == "call" and an.tail2(obj.callee) == "PartialEq::eq" and any("value::Value" in a for a in obj.fn_args + obj.res_args):
                return psa.Pred(("KEYMATCH",), [an.trace_operand(bd, obj.args[0])]), False
            return None
        vals, complete = psa.valuations_at(ins, p.bb, classify)
        if complete and all(v.get(("KEYMATCH",)) is not True for v in vals):
            r.ok("SassMap::insert|push-after-miss")
        else:
            r.violate("SassMap::insert|push-after-miss", "SassMap::insert can push a duplicate entry on a path where a key compared equal", p.loc())
        # and the loop over existing entries dominates the push
        loops = [c for c in ins.calls() if an.tail2(c.callee) == "Iterator::next"]
        if loops and all(ins.dominates(l.bb, p.bb) for l in loops):
            r.ok("SassMap::insert|search-dominates-push")
        else:
            r.violate("SassMap::insert|search", "SassMap::insert pushes without first searching the existing keys", p.loc())
    return r


def _is_sassmap_inner(body, op, recv):
    if op.place is None:
        return False
    # find a `.0` field projection whose ADT is SassMap anywhere along the def chain
    seen = set()
    cur = op.place
    for _ in range(8):
        for e in cur.proj:
            if e["k"] == "field" and e.get("adt", "").endswith("value::map::SassMap"):
                return True
        l = cur.local
        if l in seen:
            return False
        seen.add(l)
        defs = body.defs_of(l)
        if len(defs) != 1:
            return False
        d = defs[0][2]
        if isinstance(d, dict) and d["k"] in ("ref", "rawptr", "copy_for_deref"):
            cur = Place(d["p"])
        elif isinstance(d, dict) and d["k"] == "use" and "p" in d["op"]:
            cur = Place(d["op"]["p"])
        elif hasattr(d, "args") and d.args and an.tail2(d.callee) in ("Deref::deref", "DerefMut::deref_mut") and d.args[0].place is not None:
            cur = d.args[0].place
        else:
            return False
    return False


def rule_e(ctx):
    r = RuleResult("C09-e", "map literals reject duplicate keys: visit_map inserts only after get_ref(&key) found nothing, else Err")
    prog = ctx.prog()
    b = prog.one("Visitor::visit_map")
    ins = [c for c in b.calls() if (c.name() or "").endswith("SassMap::insert")]
    if not ins:
        raise AnchorMissing("visit_map no longer calls SassMap::insert")
    errs = an.err_exit_blocks(b)
    for c in ins:
        def classify(kind, obj, bd, sw):
            if kind == "call" and an.tail2(obj.callee) in ("Option::is_some", "Option::is_none"):
                src = an.trace_operand(bd, obj.args[0], through_calls=False)
                if src.root[0] == "call" and src.root[1].endswith("SassMap::get_ref"):
                    return psa.Pred(("DUP",), []), an.tail2(obj.callee) == "Option::is_none"
            if kind == "discr":
                ap, rv = obj
                base = an.AP(ap.root, ap.proj[:-1]) if ap.proj and ap.proj[-1] == "<discr>" else ap
                if base.root[0] == "call" and base.root[1].endswith("SassMap::get_ref") and not base.proj:
                    return psa.Pred(("DUP",), [], variant_true="Some"), False
            if kind == "call" and (obj.name() or "").endswith("SassMap::contains"):
                return psa.Pred(("DUP",), []), False
            return None
        vals, complete = psa.valuations_at(b, c.bb, classify)
        key = "visit_map|insert-after-duplicate-test"
        if complete and vals and all(v.get(("DUP",)) is False for v in vals):
            r.ok(key)
        else:
            r.violate(key, "visit_map inserts a key without having established that it is not already present", c.loc())
    # the duplicate branch is an Err
    dup_err = False
    for c in b.calls():
        if (c.name() or "").endswith("SassMap::get_ref") or (c.name() or "").endswith("SassMap::contains"):
            for c2 in b.calls():
                if an.tail2(c2.callee) in ("Option::is_some",) and an.trace_operand(b, c2.args[0], through_calls=False).root == ("call", c.name(), c.bb):
                    for sw, pol in common.switches_on_call(b, c2):
                        tb = common.bool_edge(b, sw, pol)
                        if common.reach_from(b, tb) & errs:
                            dup_err = True
    if dup_err:
        r.ok("visit_map|duplicate-is-Err")
    else:
        r.violate("visit_map|duplicate-is-Err", "a duplicate key in a map literal does not lead to an Err", b.loc())
    return r


# ---------------------------------------------------------------------------------------------
def _expr(body, op, depth=0):
    """Expression tree of an operand over the function's arguments (single-definition locals only)."""
    if depth > 12:
        return ("?",)
    if op.place is None:
        return ("const", repr(op.const_value()) if op.const is not None else "?")
    if op.place.proj:
        base = _expr(body, Operand({"k": "copy", "p": {"l": op.place.local}}), depth + 1)
        return ("proj", tuple(e.get("n", e.get("i", e["k"])) if e["k"] == "field" else e["k"] for e in op.place.proj), base)
    l = op.place.local
    if 1 <= l <= body.argc:
        return ("arg", l)
    defs = body.defs_of(l)
    if len(defs) != 1:
        return ("?",)
    d = defs[0][2]
    if isinstance(d, dict):
        if d["k"] == "use":
            return _expr(body, Operand(d["op"]), depth + 1)
        if d["k"] == "binop":
            return ("bin", d["op"], _expr(body, Operand(d["a"]), depth + 1), _expr(body, Operand(d["b"]), depth + 1))
        if d["k"] in ("unop", "cast"):
            return (d["k"], d.get("op") or d.get("ty"), _expr(body, Operand(d.get("a") or d.get("op_") or d.get("x") or d["operand"]), depth + 1)) if any(k in d for k in ("a", "op_", "x", "operand")) else ("?",)
        if d["k"] == "ref":
            return _expr(body, Operand({"k": "copy", "p": d["p"]}), depth + 1)
        return ("?",)
    if isinstance(d, Call_):
        return ("call", d.name() or "?", tuple(_expr(body, a, depth + 1) for a in d.args))
    return ("?",)


def _args_of(e):
    if e[0] == "arg":
        return {e[1]}
    out = set()
    for x in e[1:]:
        if isinstance(x, tuple):
            if x and isinstance(x[0], str) and x[0] in ("arg", "const", "bin", "call", "proj", "unop", "cast", "?"):
                out |= _args_of(x)
            else:
                for y in x:
                    if isinstance(y, tuple):
                        out |= _args_of(y)
    return out


def _subst(e, frm, to):
    if e == ("arg", frm):
        return ("arg", to)
    return tuple(_subst(x, frm, to) if isinstance(x, tuple) else x for x in e)


def _unknown(e):
    if e == ("?",):
        return True
    return any(_unknown(x) for x in e if isinstance(x, tuple))


def _is_key_equality(body, rv):
    """`k(a) == k(b)` with the same expression k applied to argument 1 alone and argument 2 alone."""
    if rv.get("k") != "binop" or rv.get("op") != "Eq":
        return None
    ea, eb = _expr(body, Operand(rv["a"])), _expr(body, Operand(rv["b"]))
    if _unknown(ea) or _unknown(eb):
        return None
    aa, ab = _args_of(ea), _args_of(eb)
    if aa == {1} and ab == {2} and _subst(ea, 1, 2) == eb:
        return ea
    if aa == {2} and ab == {1} and _subst(eb, 1, 2) == ea:
        return eb
    return None


def rule_f(ctx):
    r = RuleResult("C09-f", "number equality is induced by a key: fuzzy_equals returns true only under k(a) == k(b) for one function k of a single operand "
                   "(a partition into buckets, hence transitive), and Number's == is fuzzy_equals on the two magnitudes")
    prog = ctx.prog()
    b = prog.one("value::number::fuzzy_equals")
    key_switch = {}  # switch block -> key expression
    for bb in range(len(b.blocks)):
        t = b.term(bb)
        if t["k"] == "switch" and t["dty"] == "bool" and bb not in b._const_switch:
            op = Operand(t["d"])
            if op.place is not None and not op.place.proj:
                defs = b.defs_of(op.place.local)
                if len(defs) == 1 and isinstance(defs[0][2], dict):
                    k = _is_key_equality(b, defs[0][2])
                    if k is not None:
                        key_switch[bb] = k
    n = 0
    for bb, i, pl, rv, st in b.assignments():
        if pl.local != 0 or pl.proj:
            continue
        n += 1
        where = "%s:%d" % (b.file, st["span"]["l"])
        key = "fuzzy_equals|return#%d" % n
        if rv["k"] == "use" and rv["op"]["k"] == "const":
            if Operand(rv["op"]).const_value() is False:
                r.ok(key, returns="false")
                continue
            # constant true: must be on the true edge of a key equality
            ok = False
            for d, fact, op, dty in an.guard_facts(b, bb):
                if d in key_switch and ((fact[0] == "not_in" and "0" in fact[1]) or (fact[0] == "in" and fact[1] != ["0"])):
                    ok = True
            if ok:
                r.ok(key, returns="true under key equality")
            else:
                r.violate("fuzzy_equals|true-without-key-equality", "fuzzy_equals returns true at %s on a path that is not guarded by an equality k(a) == k(b) of a "
                          "per-operand key: the relation is then a tolerance window, which is not transitive (a==b, b==c, a!=c)" % where, where)
            continue
        src = rv
        if rv["k"] == "use" and "p" in rv["op"] and not rv["op"]["p"].get("p"):
            defs = b.defs_of(rv["op"]["p"]["l"])
            if len(defs) == 1 and isinstance(defs[0][2], dict):
                src = defs[0][2]
        if _is_key_equality(b, src) is not None:
            r.ok(key, returns="k(a) == k(b)", k=repr(_is_key_equality(b, src))[:200])
        else:
            r.violate("fuzzy_equals|true-without-key-equality", "fuzzy_equals returns at %s a value that is not an equality k(a) == k(b) of a per-operand key (and is not "
                      "the constant false): the relation is then a tolerance window, which is not transitive (a==b, b==c, a!=c)" % where, where)
    r.floor("return sites of fuzzy_equals", n, 2)
    # reflexivity for non-finite magnitudes: the arithmetic key test is NaN-poisoned for infinities (inf - inf), so identical operands must be
    # accepted by an `a == b` test of the operands themselves
    ident = [bb for bb, k in key_switch.items() if k == ("arg", 1)]
    ok_ident = False
    for bb_, i_, pl_, rv_, st_ in b.assignments():
        if pl_.local == 0 and not pl_.proj and rv_["k"] == "use" and rv_["op"].get("k") == "const" and Operand(rv_["op"]).const_value() is True:
            for d, fact, op, dty in an.guard_facts(b, bb_):
                if d in ident and ((fact[0] == "not_in" and "0" in fact[1]) or (fact[0] == "in" and fact[1] != ["0"])):
                    ok_ident = True
    if ok_ident:
        r.ok("fuzzy_equals|identical-operands-are-equal")
    else:
        r.violate("fuzzy_equals|identical-operands-are-equal", "fuzzy_equals no longer returns true directly for a == b: for two equal infinities the tolerance arithmetic is "
                  "inf - inf = NaN, so Infinity == Infinity becomes false (== is not reflexive, index()/map-get miss infinite keys)", b.loc())
    # Number == is fuzzy_equals(self.0, other.0)
    eqb = prog.one("<grass_compiler::value::number::Number as std::cmp::PartialEq>::eq")
    cs = [c for c in eqb.calls()]
    good = len(cs) == 1 and (cs[0].name() or "").endswith("number::fuzzy_equals") and cs[0].dest is not None and cs[0].dest.local == 0 \
        and [repr(an.trace_operand(eqb, a)) for a in cs[0].args] == ["arg1.0", "arg2.0"]
    if good:
        r.ok("Number::eq|is fuzzy_equals(self.0, other.0)")
    else:
        r.violate("Number::eq|delegates", "Number's PartialEq::eq is no longer exactly fuzzy_equals(self.0, other.0): %s" % [(c.name(), [repr(an.trace_operand(eqb, a)) for a in c.args]) for c in cs], eqb.loc())
    return r


RULES = [rule_a, rule_b, rule_c, rule_d, rule_e, rule_f]
