"""C15 — colors keep channels in range and agree across spellings (table and constructor clauses)."""
import json
import os

from ..core import RuleResult, VERIF
from ..facts import AnchorMissing, Operand, norm
from .. import interval
from .. import an, psa
from . import common

ALIASES = [("aqua", "cyan"), ("fuchsia", "magenta"), ("gray", "grey"), ("darkgray", "darkgrey"), ("darkslategray", "darkslategrey"),
           ("dimgray", "dimgrey"), ("lightgray", "lightgrey"), ("lightslategray", "lightslategrey"), ("slategray", "slategrey")]


def _tables(prog):
    b = prog.one("color::name::NAMED_COLORS")
    n2r, r2n = None, None
    for i in range(len(b.j.get("promoted", []))):
        v = b.promoted_value(i)
        if not isinstance(v, list) or not v or not isinstance(v[0], list) or len(v[0]) != 2:
            continue
        k, val = v[0]
        if isinstance(k, str) and isinstance(val, list) and len(val) == 4:
            n2r = {e[0]: tuple(e[1]) for e in v}
            n2r_len = len(v)
        elif isinstance(k, list) and len(k) == 3 and isinstance(val, str):
            r2n = {tuple(e[0]): e[1] for e in v}
            r2n_len = len(v)
    if n2r is None or r2n is None:
        raise AnchorMissing("cannot extract the phf tables of NAMED_COLORS (name_to_rgba / rgba_to_name)")
    return n2r, r2n, n2r_len, r2n_len


def rule_a(ctx):
    r = RuleResult("C15-a", "the named-colour table equals the CSS list and rgba_to_name is its right inverse")
    prog = ctx.prog()
    n2r, r2n, n1, n2 = _tables(prog)
    if n1 != len(n2r):
        r.violate("name_to_rgba|duplicates", "name_to_rgba has duplicate keys")
    if n2 != len(r2n):
        r.violate("rgba_to_name|duplicates", "rgba_to_name has duplicate keys")
    spec = json.load(open(os.path.join(VERIF, "spec", "css_named_colors.json")))["colors"]
    n = 0
    for name, rgb in sorted(spec.items()):
        n += 1
        key = "name_to_rgba|%s" % name
        got = n2r.get(name)
        if got is None:
            r.violate(key, "CSS colour `%s` is missing from name_to_rgba" % name)
        elif tuple(got[:3]) != tuple(rgb):
            r.violate(key, "name_to_rgba[%s] = #%02x%02x%02x, CSS defines #%02x%02x%02x" % ((name,) + tuple(got[:3]) + tuple(rgb)))
        elif got[3] != 0xFF:
            r.violate(key, "name_to_rgba[%s] has alpha %#x, expected 0xFF" % (name, got[3]))
        else:
            r.ok(key)
    for name, got in sorted(n2r.items()):
        if name not in spec:
            key = "name_to_rgba|extra|%s" % name
            if name == "transparent" and tuple(got) == (0, 0, 0, 0):
                r.ok(key, why="transparent = rgba(0,0,0,0)")
            else:
                r.violate(key, "name_to_rgba has the non-CSS entry %s -> %s" % (name, got))
    # inverse: rgba_to_name[rgb] must be a name whose rgb is that rgb; every CSS rgb has a name
    for rgb, name in sorted(r2n.items()):
        key = "rgba_to_name|%02x%02x%02x" % rgb
        if n2r.get(name, (None,))[:3] == rgb:
            r.ok(key, name=name)
        else:
            r.violate(key, "rgba_to_name maps #%02x%02x%02x to `%s`, but that name means %s" % (rgb + (name, n2r.get(name))))
    for name, rgb in spec.items():
        if tuple(rgb) not in r2n:
            r.violate("rgba_to_name|missing|%s" % name, "no name is registered for #%02x%02x%02x (%s): compressed output cannot use the shortest spelling" % (tuple(rgb) + (name,)))
    r.floor("CSS named colours", n, 148)
    # lookups go through these tables and are case-insensitive at the call site
    return r


CONSTRUCTORS = {
    "grass_compiler::color::Color::new_rgba": "grass_compiler::color::Color::new_rgba",
    "grass_compiler::color::Color::new_hsla": "grass_compiler::color::Color::new_hsla",
    "grass_compiler::color::Color::new": "grass_compiler::color::Color::new",
}
# who may call the raw constructors, and why each is in range (reviewed)
RAW_CALLERS = {
    "grass_compiler::color::Color::from_rgba": "clamps all four parameters",
    "grass_compiler::color::Color::from_rgba_fn": "clamps all four parameters",
    "grass_compiler::color::Color::from_hsla": "channels are fuzzy_round(hue_to_rgb(..) * 255) of clamped s/l; alpha obligation exported to callers",
    "grass_compiler::color::Color::from_hwb": "channels are fuzzy_round(.. * 255) of a convex combination; alpha clamped",
    "grass_compiler::color::Color::invert": "255 - channel of an existing colour; alpha of an existing colour",
    "grass_compiler::parse::value::ValueParser::parse_hex_color_contents": "u8 hex digits",
    "grass_compiler::parse::value::ValueParser::parse_identifier_like": "bytes of the named-colour table",
}
# which raw constructor each reviewed caller may use (the representations differ: new_rgba takes alpha in [0, 1], new takes a byte)
RAW_CALLER_CTORS = {
    "grass_compiler::parse::value::ValueParser::parse_hex_color_contents": {"new_rgba"},
    "grass_compiler::parse::value::ValueParser::parse_identifier_like": {"new"},
}
BOUNDED_ALPHA_ROOTS = ("Number::clamp", "f64::clamp", "Color::alpha", "Color::as_hsla", "percentage_or_unitless", "update_value")


def rule_b(ctx):
    r = RuleResult("C15-b", "Color values are built only by the clamping constructors")
    prog = ctx.prog()
    st = prog.struct("color::Color")
    for f in st["fields"]:
        key = "Color|field|%s" % f["name"]
        if f["pub"]:
            r.violate(key, "Color.%s is public: channel values can be set without clamping" % f["name"])
        elif f["vis"].startswith("Restricted") and f["name"] in ("rgba", "hsla", "alpha") and "color" not in f["vis"]:
            r.violate(key, "Color.%s is visible outside the color module (%s)" % (f["name"], f["vis"]))
        else:
            r.ok(key, vis=f["vis"])
    lits = set()
    for b in prog.bodies.values():
        for bb, i, pl, rv, s in b.assignments():
            if rv["k"] == "agg" and rv.get("adt") == "grass_compiler::color::Color":
                lits.add(b.root)
    for root in sorted(lits):
        key = "Color-literal|%s" % root
        if root in CONSTRUCTORS or root.endswith(" as std::clone::Clone>::clone"):
            r.ok(key)
        else:
            r.violate(key, "Color struct literal in %s (outside new_rgba/new_hsla/new)" % root)
    n = 0
    for b in prog.bodies.values():
        for c in b.calls():
            nm = c.name() or ""
            if nm in CONSTRUCTORS:
                n += 1
                key = "%s|calls %s" % (b.root, nm.rsplit("::", 1)[-1])
                allowed_ctor = RAW_CALLER_CTORS.get(b.root)
                if b.root in RAW_CALLERS and (allowed_ctor is None or nm.rsplit("::", 1)[-1] in allowed_ctor):
                    r.ok(key, why=RAW_CALLERS[b.root])
                elif b.root in RAW_CALLERS:
                    r.violate(key, "%s builds a colour with %s; it is reviewed for %s only (Color::new stores the alpha as a raw byte, which Color::alpha() and == "
                              "interpret correctly only for the 0x00/0xFF of the named-colour table)" % (b.root, nm.rsplit("::", 1)[-1], sorted(allowed_ctor)), c.loc())
                else:
                    r.violate(key, "%s calls the unchecked constructor %s directly; SassScript-facing code must use from_rgba/from_hsla/from_hwb" % (b.root, nm.rsplit("::", 1)[-1]), c.loc())
    r.floor("raw constructor call sites", n, 6)
    # clamping constructors: every parameter reaches the literal only through clamp
    for fn, params in (("color::Color::from_rgba", (1, 2, 3, 4)), ("color::Color::from_rgba_fn", (1, 2, 3, 4)), ("color::Color::from_hwb", (4,))):
        b = prog.one(fn)
        raw = [c for c in b.calls() if (c.name() or "") in CONSTRUCTORS]
        for c in raw:
            for idx, a in enumerate(c.args[:4]):
                ap = an.trace_operand(b, a, through_calls=False)
                if idx + 1 not in params and fn.endswith("from_hwb"):
                    continue
                key = "%s|arg%d-clamped" % (fn, idx + 1)
                if ap.root[0] == "call" and an.tail2(ap.root[1]) in ("Number::clamp", "f64::clamp"):
                    # the clamp bounds
                    cc = b.call_at(ap.root[2])
                    lo = an.trace_operand(b, cc.args[1])
                    hi = an.trace_operand(b, cc.args[2])
                    want_hi = "1.0" if idx == 3 else "255.0"
                    if lo.root == ("const", "0.0") and hi.root == ("const", want_hi):
                        r.ok(key, bounds="[0, %s]" % want_hi)
                    else:
                        r.violate(key, "%s clamps parameter %d to [%s, %s], expected [0, %s]" % (fn, idx + 1, lo.root[1:], hi.root[1:], want_hi), cc.loc())
                else:
                    r.violate(key, "%s passes parameter %d to the raw constructor without clamping (%r)" % (fn, idx + 1, ap), c.loc())
    # from_hsla: saturation and lightness clamped to [0,1]; alpha exported
    fh = prog.one("color::Color::from_hsla")
    clamps = [c for c in fh.calls() if an.tail2(c.callee) in ("Number::clamp", "f64::clamp")]
    srcs = {repr(an.trace_operand(fh, c.args[0])) for c in clamps}
    for p_, nm in ((2, "saturation"), (3, "lightness")):
        key = "from_hsla|%s-clamped" % nm
        if any(s == "arg%d" % p_ or s.startswith("arg%d." % p_) for s in srcs):
            r.ok(key)
        else:
            r.violate(key, "Color::from_hsla no longer clamps its %s parameter" % nm, fh.loc())
    for b in prog.bodies.values():
        for c in b.calls():
            if (c.name() or "") in ("grass_compiler::color::Color::from_hsla", "grass_compiler::color::Color::from_hsla_fn"):
                if b.root.endswith("Color::from_hsla_fn"):
                    continue
                ap = an.trace_operand(b, c.args[3], through_calls=False)
                root = ap
                # see through `Number(x)` wrappers and simple arithmetic-free copies
                desc = repr(ap)
                ok = False
                if ap.root[0] == "call" and any(an.tail2(ap.root[1]).endswith(x.split("::")[-1]) for x in BOUNDED_ALPHA_ROOTS):
                    ok = True
                elif ap.root[0] == "local":
                    defs = b.defs_of(ap.root[1])
                    inner = []
                    for _, _, d in defs:
                        if isinstance(d, dict) and d["k"] == "agg" and d.get("ops"):
                            inner.append(an.trace_operand(b, Operand(d["ops"][0]), through_calls=True))
                        elif isinstance(d, dict) and d["k"] == "use":
                            inner.append(an.trace_operand(b, Operand(d["op"]), through_calls=True))
                    if inner and all(x.root[0] == "call" and any(an.tail2(x.root[1]).endswith(y.split("::")[-1]) for y in BOUNDED_ALPHA_ROOTS) for x in inner):
                        ok = True
                        desc = ", ".join(repr(x) for x in inner)
                key = "%s|from_hsla-alpha" % b.root
                if ok:
                    r.ok(key, alpha=desc)
                else:
                    r.violate(key, "%s passes an alpha of unchecked range (%s) to from_hsla, which does not clamp it" % (b.root, desc), c.loc())
    # update_value (scale/adjust/change-color) is one of the roots trusted above to deliver a channel in [0, max]: check its arms.
    uvs = [x for k, x in prog.bodies.items() if k.endswith("color::other::update_components::update_value")]
    if len(uvs) != 1:
        raise AnchorMissing("update_components::update_value not found")
    uv = uvs[0]
    arm = None
    for sw, ap, adt, variants, rv in common.discr_switches(uv):
        if (adt or "").endswith("UpdateComponents") and ap.root == ("arg", 4):
            arms = common.switch_arms(uv, sw, variants)
            arm = (sw, arms)
    if arm is None:
        raise AnchorMissing("update_value does not match on its UpdateComponents argument")
    sw, arms = arm
    # Adjust: the sum is clamped to [0, max]
    region = common.exclusive_region(uv, sw, arms["Adjust"]) or {arms["Adjust"]}
    rets = []
    for c in uv.calls():
        if c.bb in region and c.dest is not None and c.dest.local == 0 and not c.dest.proj:
            rets.append(c)
    other_rets = [bb for bb, i, pl, rv, st in uv.assignments() if bb in region and pl.local == 0 and not pl.proj]
    good = len(rets) == 1 and not other_rets and (rets[0].name() or "").endswith("number::Number::clamp") and \
        an.trace_operand(uv, rets[0].args[1]).root == ("const", "0.0") and an.trace_operand(uv, rets[0].args[2]).root == ("arg", 3)
    if good:
        r.ok("update_value|Adjust-is-clamped", how="(param + current).clamp(0, max)")
    else:
        r.violate("update_value|Adjust-is-clamped", "update_value's Adjust arm no longer returns clamp(param + current, 0, max): adjust-color can produce alpha outside [0,1] on the HSL "
                  "path and negative whiteness/blackness on the HWB path, whose constructors do not clamp those parameters", uv.loc())
    # Change: the parameter itself, whose bounds get_arg asserted
    region = common.exclusive_region(uv, sw, arms["Change"]) or {arms["Change"]}
    ch = [an.trace_operand(uv, Operand(rv["op"])) for bb, i, pl, rv, st in uv.assignments() if bb in region and pl.local == 0 and not pl.proj and rv["k"] == "use"]
    if ch and all(x.root == ("arg", 2) for x in ch):
        r.ok("update_value|Change-is-param")
    else:
        r.violate("update_value|Change-is-param", "update_value's Change arm no longer returns the (range-checked) parameter unchanged: %s" % [repr(x) for x in ch], uv.loc())
    return r


def rule_c(ctx):
    r = RuleResult("C15-c", "compressed output picks a name only if it is not longer than the hex form, and short hex only when all channels are symmetrical")
    prog = ctx.prog()
    b = prog.one("Serializer::visit_color")

    def classify(kind, obj, body, sw):
        if kind == "call" and (obj.name() or "").endswith("Serializer::can_use_short_hex"):
            return psa.Pred(("SHORT",), []), False
        if kind == "call" and (obj.name() or "").endswith("Options::is_compressed"):
            return psa.Pred(("COMPRESSED",), []), False
        if kind == "binop" and obj[0] in ("Le", "Lt", "Ge", "Gt"):
            x, y = an.trace_operand(body, obj[1]), an.trace_operand(body, obj[2])
            if ("len" in repr(x) or "len" in repr(y)):
                # name.len() <= hex_length
                norm_le = (obj[0] == "Le" and "len" in repr(x)) or (obj[0] == "Ge" and "len" in repr(y))
                if norm_le:
                    return psa.Pred(("NAME_FITS",), []), False
                return psa.Pred(("NAME_CMP_OTHER",), []), False
        return None

    # writes of 4-char short hex: three pushes of `hex_char_for(x & 0xF)` in a row are under SHORT == true
    short_pushes = []
    for c in b.calls():
        if an.tail2(c.callee) == "Vec::push":
            v = an.trace_operand(b, c.args[1], through_calls=False)
            if v.root[0] == "call" and v.root[1].endswith("hex_char_for"):
                short_pushes.append(c)
    if len(short_pushes) != 3:
        r.violate("visit_color|short-hex", "expected three short-hex digit pushes in visit_color, found %d" % len(short_pushes), b.loc())
    for c in short_pushes:
        vals, complete = psa.valuations_at(b, c.bb, classify)
        if complete and vals and all(v.get(("SHORT",)) is True and v.get(("COMPRESSED",)) is True for v in vals):
            r.ok("visit_color|short-hex-under-can_use_short_hex")
        else:
            r.violate("visit_color|short-hex-guard", "a 3-digit hex colour is written without can_use_short_hex() (and compressed mode) being established", c.loc())
    # name written in compressed mode only when it fits
    from .c05 import _chain
    names = [c for c in b.calls() if an.tail2(c.callee) == "Vec::extend_from_slice" and "Option::unwrap" in _chain(b, an.trace_operand(b, c.args[1], through_calls=False))]
    n = 0
    for c in names:
        vals, complete = psa.valuations_at(b, c.bb, classify)
        for v in vals:
            if v.get(("COMPRESSED",)) is True:
                n += 1
                if v.get(("NAME_FITS",)) is True:
                    r.ok("visit_color|compressed-name-fits")
                else:
                    r.violate("visit_color|compressed-name", "in compressed mode a colour name is written without checking name.len() <= hex length", c.loc())
    r.floor("compressed name writes", n, 1)
    # hex_length is 4 iff can_use_short_hex else 7
    consts = set()
    for bb, i, pl, rv, s in b.assignments():
        if rv["k"] == "use" and rv["op"]["k"] == "const" and rv["op"]["c"].get("ty") == "usize":
            consts.add(int(rv["op"]["c"]["v"]))
    if {4, 7} <= consts:
        r.ok("visit_color|hex-lengths", values=sorted(consts))
    else:
        r.violate("visit_color|hex-lengths", "visit_color compares the name length with %s, expected the hex lengths 4 and 7" % sorted(consts), b.loc())
    # can_use_short_hex: true only if is_symmetrical_hex holds for each of red, green and blue
    cu = prog.one("Serializer::can_use_short_hex")

    def channel_of(op, depth=0):
        if depth > 10 or op.place is None:
            return None
        for bb_, i_, d in cu.defs_of(op.place.local):
            if isinstance(d, dict):
                src = d.get("op") if d["k"] in ("use", "cast") else None
                if src is None and d["k"] == "ref":
                    src = {"k": "copy", "p": {"l": d["p"]["l"]}}
                if src is not None and "p" in src:
                    return channel_of(Operand({"k": "copy", "p": {"l": src["p"]["l"]}}), depth + 1)
                return None
            nm = d.name() or d.callee or ""
            for ch in ("red", "green", "blue"):
                if nm.endswith("color::Color::" + ch):
                    return ch
            if d.args:
                return channel_of(d.args[0], depth + 1)
        return None

    symc = [c for c in cu.calls() if (c.name() or "").endswith("Serializer::is_symmetrical_hex")]
    chans = {}
    for c in symc:
        chans.setdefault(channel_of(c.args[0]), []).append(c)
    # every way of returning a possibly-true value is under the true outcome of all the other tests
    def true_edge_dominates(c, site_bb):
        for sw, pol in common.switches_on_call(cu, c):
            if an.edge_dominates(cu, (sw, common.bool_edge(cu, sw, pol)), site_bb):
                return True
        return False
    conj = True
    for bb_, i_, pl_, rv_, st_ in cu.assignments():
        if pl_.local == 0 and not pl_.proj and rv_["k"] == "use" and rv_["op"]["k"] == "const" and Operand(rv_["op"]).const_value() is True:
            if not all(true_edge_dominates(c, bb_) for c in symc):
                conj = False
    for c in symc:
        if c.dest is not None and c.dest.local == 0:
            if not all(true_edge_dominates(c2, c.bb) for c2 in symc if c2 is not c):
                conj = False
    if set(chans) == {"red", "green", "blue"} and conj:
        r.ok("can_use_short_hex|all-three-channels")
    else:
        r.violate("can_use_short_hex|all-three-channels", "can_use_short_hex must require is_symmetrical_hex of red, green and blue together; it tests %s%s: a colour whose "
                  "untested channel is not a doubled digit is written as #rgb and changes" % (sorted(str(k) for k in chans), "" if conj else " (not as a conjunction)"), cu.loc())
    # is_symmetrical_hex: channel & 0xF == channel >> 4
    sym = prog.one("Serializer::is_symmetrical_hex")
    ops = [(rv["op"], repr(an.trace_operand(sym, Operand(rv["a"]))), repr(an.trace_operand(sym, Operand(rv["b"])))) for bb, i, pl, rv, s in sym.assignments() if rv["k"] == "binop"]
    want = {("BitAnd", "arg1", "const('15')"), ("Shr", "arg1", "const('4')")}
    got = {(o.replace("Unchecked", ""), a, b_) for o, a, b_ in ops}
    if want <= got and any(o == "Eq" for o, _, _ in ops):
        r.ok("is_symmetrical_hex|definition")
    else:
        r.violate("is_symmetrical_hex|definition", "is_symmetrical_hex is not `channel & 0xF == channel >> 4` (%s)" % sorted(got), sym.loc())
    return r


# ---------------------------------------------------------------------------------------------
def _number_rem_summary(prog):
    """`Number % Number(c)` with a positive constant c lies in [0, c]: checked on the bodies of Rem::rem, modulo and real_mod."""
    rem = prog.one("<grass_compiler::value::number::Number as std::ops::arith::Rem>::rem")
    cs = [c for c in rem.calls()]
    if len(cs) != 1 or not (cs[0].name() or "").endswith("number::modulo") or [repr(an.trace_operand(rem, a)) for a in cs[0].args] != ["arg1.0", "arg2.0"]:
        return None, "Number::rem is not modulo(self.0, other.0)"
    mo = prog.one("value::number::modulo")
    # first decision: n2 > 0.0 ; on its true edge the result is real_mod(n1, n2)
    sw = None
    for bb in mo.rpo():
        t = mo.term(bb)
        if t["k"] == "switch" and bb not in mo._const_switch:
            sw = bb
            break
    if sw is None:
        return None, "modulo has no decision"
    ok = False
    for kind, obj, pol in an.cond_sources(mo, Operand(mo.term(sw)["d"])):
        if kind == "binop" and obj[0] in ("Gt", "Lt"):
            a, b_ = obj[1], obj[2]
            if obj[0] == "Lt":
                a, b_ = b_, a
            if a.place is not None and an.trace_operand(mo, a) == an.AP(("arg", 2), ()) and b_.const is not None and float(b_.const.get("f", "1")) == 0.0:
                tgt = common.bool_edge(mo, sw, pol)
                # the region entered on that edge returns the result of real_mod(arg1, arg2)
                for c in mo.calls():
                    if (c.name() or "").endswith("number::real_mod") and (c.bb == tgt or mo.dominates(tgt, c.bb)) and an.edge_dominates(mo, (sw, tgt), c.bb) \
                            and [repr(an.trace_operand(mo, x)) for x in c.args] == ["arg1", "arg2"] and c.dest is not None and c.dest.local == 0:
                        ok = True
    if not ok:
        return None, "modulo no longer returns real_mod(n1, n2) when n2 > 0.0"
    rm = prog.one("value::number::real_mod")
    cs = [c for c in rm.calls()]
    if len(cs) != 1 or not (cs[0].name() or cs[0].callee or "").endswith("rem_euclid") or [repr(an.trace_operand(rm, x)) for x in cs[0].args] != ["arg1", "arg2"]:
        return None, "real_mod is not n1.rem_euclid(n2)"

    def summ(ev, body, call, depth):
        m = ev.operand(body, call.args[1], depth)
        if m[0] > 0 and m[1] < float("inf"):
            return (0.0, m[1])
        return interval.TOP
    return summ, "Number % c = modulo = real_mod = rem_euclid for c > 0 (checked on their bodies)"


def rule_d(ctx):
    r = RuleResult("C15-d", "hue wrap-around: every hue handed to Color::hue_to_rgb lies in [-1, 2] turns (it corrects by at most one turn in each direction), "
                   "by interval analysis of the arithmetic between the hue parameter and the call")
    prog = ctx.prog()
    summ, why = _number_rem_summary(prog)
    summaries = {}
    if summ is not None:
        summaries["<grass_compiler::value::number::Number as std::ops::arith::Rem>::rem"] = summ
        r.ok("Number::rem|non-negative-modulo", why=why)
    else:
        r.violate("Number::rem|non-negative-modulo", "cannot establish that `Number % c` is the non-negative modulo: %s" % why)
    # precondition of hue_to_rgb, from its own body: it adds one turn if hue < 0 and subtracts one if hue > 1, nothing else
    h2r = prog.one("color::Color::hue_to_rgb")
    adj = []
    for bb, i, pl, rv, st in h2r.assignments():
        if rv["k"] == "binop" and rv["op"] in ("Add", "Sub") and not pl.proj and pl.local == 3 and rv["b"].get("k") == "const":
            adj.append((rv["op"], float(rv["b"]["c"].get("f", "nan"))))
    if sorted(adj) == [("Add", 1.0), ("Sub", 1.0)]:
        r.ok("hue_to_rgb|corrects-one-turn", adjustments=sorted(adj))
        bound = (-1.0, 2.0)
    else:
        r.violate("hue_to_rgb|corrects-one-turn", "hue_to_rgb's own wrap-around is no longer `+1 if < 0, -1 if > 1` (%s): the precondition [-1, 2] is not the right one" % sorted(adj), h2r.loc())
        bound = (-1.0, 2.0)
    n = 0

    def check_site(body, call, env, via):
        ev = interval.Eval(prog, env=env, summaries=summaries)
        return ev.operand(body, call.args[2])

    for b in prog.bodies.values():
        for c in b.calls():
            if not (c.name() or "").endswith("color::Color::hue_to_rgb"):
                continue
            src = an.trace_operand(b, c.args[2])
            if b.is_closure() and src.root[0] == "arg" and not src.proj:
                # the hue is the closure's parameter: check every call of the closure in its parent
                parent = prog.bodies.get(b.path.rsplit("::{closure", 1)[0])
                sites = [pc for pc in (parent.calls() if parent else []) if pc.name() == b.path]
                if not sites:
                    r.violate("%s|hue-range" % b.path, "hue_to_rgb is called on a closure parameter and the closure's call sites cannot be found", c.loc())
                for k, pc in enumerate(sites):
                    n += 1
                    ev = interval.Eval(prog, summaries=summaries)
                    # closure arguments arrive as a tuple
                    iv = ev.place(parent, pc.args[1].place.local, [{"k": "field", "i": src.root[1] - 2}], 0) if pc.args[1].place is not None else interval.TOP
                    key = "%s|hue-range|call#%d" % (b.path, k)
                    if interval.within(iv, bound):
                        r.ok(key, interval=[round(iv[0], 6), round(iv[1], 6)])
                    else:
                        r.violate(key, "the hue passed to hue_to_rgb through %s ranges over [%g, %g] turns, outside [-1, 2]: one correction by a whole turn no longer "
                                  "brings it into [0, 1] and a channel is computed from a negative or > 1 hue" % (b.path, iv[0], iv[1]), pc.loc())
                continue
            n += 1
            ev = interval.Eval(prog, summaries=summaries)
            iv = ev.operand(b, c.args[2])
            ordinal = sum(1 for c2 in b.calls() if (c2.name() or "").endswith("color::Color::hue_to_rgb") and c2.bb < c.bb)
            key = "%s|hue-range|call#%d" % (b.path, ordinal)
            if interval.within(iv, bound):
                r.ok(key, interval=[round(iv[0], 6), round(iv[1], 6)])
            else:
                r.violate(key, "the hue passed to hue_to_rgb in %s ranges over [%g, %g] turns, outside [-1, 2]: one correction by a whole turn no longer brings it "
                          "into [0, 1] and a channel is computed from a negative or > 1 hue" % (b.path, iv[0], iv[1]), c.loc())
    r.floor("hue_to_rgb call sites", n, 6)
    return r



def rule_e(ctx):
    r = RuleResult("C15-e", "rgb()/rgba() and scale/adjust/change-color store integer-rounded channels: the red/green/blue handed to the clamping constructors there are "
                   "fuzzy_round results (colour equality compares stored channels, so an unrounded 127.5 would print as 128 but compare unequal to #808080)")
    prog = ctx.prog()
    n = 0

    def rounded(b, op, depth=0):
        if depth > 5 or op.place is None:
            return False
        ap = an.trace_operand(b, op, through_calls=False)
        if ap.root[0] == "call":
            nm = ap.root[1]
            if nm.endswith("number::fuzzy_round") or nm.endswith("update_components::update_rgb") or nm.endswith("f64>::round") or nm.endswith("Number::round"):
                return True
            return False
        if ap.root[0] == "local":
            defs = b.defs_of(ap.root[1])
            ok = bool(defs)
            for bb, i, d in defs:
                if isinstance(d, dict) and d["k"] == "agg" and d.get("adt", "").endswith("number::Number") and d.get("ops"):
                    ok = ok and rounded(b, Operand(d["ops"][0]), depth + 1)
                elif isinstance(d, dict) and d["k"] == "use":
                    ok = ok and rounded(b, Operand(d["op"]), depth + 1)
                else:
                    ok = False
            return ok
        return False

    for fn in ("builtin::functions::color::rgb::inner_rgb_3_arg", "builtin::functions::color::other::update_components"):
        b = prog.one(fn)
        for c in b.calls():
            nm = c.name() or ""
            if nm.endswith("color::Color::from_rgba_fn") or nm.endswith("color::Color::from_rgba"):
                for idx, ch in enumerate(("red", "green", "blue")):
                    n += 1
                    key = "%s|%s-is-rounded" % (fn.rsplit("::", 1)[-1], ch)
                    if rounded(b, c.args[idx]):
                        r.ok(key)
                    else:
                        r.violate(key, "%s passes an unrounded %s channel (%r) to %s: the colour prints like its rounded spelling but compares unequal to it (==, index(), map keys)"
                                  % (fn, ch, an.trace_operand(b, c.args[idx], through_calls=False), nm.rsplit("::", 1)[-1]), c.loc())
    upd = [x for k, x in prog.bodies.items() if k.endswith("update_components::update_rgb")]
    if len(upd) == 1 and any((c.name() or "").endswith("number::fuzzy_round") for c in upd[0].calls()):
        r.ok("update_rgb|rounds")
    else:
        r.violate("update_rgb|rounds", "update_components::update_rgb no longer rounds with fuzzy_round")
    r.floor("channel arguments examined", n, 6)
    return r


RULES = [rule_a, rule_b, rule_c, rule_d, rule_e]
