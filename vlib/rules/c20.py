"""C20 — the command-line tool mirrors the library and signals failure correctly (all rules over `main`'s MIR)."""
from ..core import RuleResult
from ..facts import AnchorMissing, Operand
from .. import an
from . import common

# E3: documented CLI flag -> Options builder, with polarity
FLAG_MAP = {
    "quiet": ("get_flag", "QUIET", True),
    "unicode_error_messages": ("get_flag", "NO_UNICODE", False),
    "allows_charset": ("get_flag", "NO_CHARSET", False),
    "load_paths": ("get_many", "LOAD_PATH", None),
    "style": ("get_one", "STYLE", None),
}
OPT = "grass_compiler::options::Options::"


def _main(ctx):
    prog = ctx.prog()
    return prog, prog.one("grass::main")


def _value_source(body, op, depth=0):
    """(callee tail, const first str arg, polarity) for a value derived from an ArgMatches accessor."""
    for kind, obj, pol in an.cond_sources(body, op):
        if kind == "call":
            c = obj
            t2 = an.tail2(c.callee)
            if t2.startswith("ArgMatches::"):
                name = an.trace_operand(body, c.args[1])
                return t2.split("::")[1], name.root[1] if name.root[0] == "const" else None, pol
    ap = an.trace_operand(body, op)
    seen = 0
    while ap.root[0] == "call" and seen < 6:
        c = body.call_at(ap.root[2])
        t2 = an.tail2(c.callee)
        if t2.startswith("ArgMatches::"):
            name = an.trace_operand(body, c.args[1])
            return t2.split("::")[1], name.root[1] if name.root[0] == "const" else None, None
        if not c.args:
            break
        ap = an.trace_operand(body, c.args[0])
        seen += 1
    return None


def rule_a(ctx):
    r = RuleResult("C20-a", "every CLI flag reaches its Options builder with the documented polarity, and the built Options is what the library is called with")
    prog, m = _main(ctx)
    builders = {}
    for c in m.calls():
        n = c.name() or ""
        if n.startswith(OPT) and n[len(OPT):] in FLAG_MAP:
            builders[n[len(OPT):]] = c
    for name, (acc, flag, pol) in FLAG_MAP.items():
        key = "main|%s" % name
        c = builders.get(name)
        if c is None:
            r.violate(key, "main never calls Options::%s: flag %s has no effect" % (name, flag))
            continue
        if name == "style":
            # match on get_one::<Style>("STYLE"): Expanded -> Expanded, Compressed -> Compressed
            ok = _style_mapping(m, c, r)
            continue
        src = _value_source(m, c.args[1])
        if src is None:
            r.violate(key, "argument of Options::%s does not derive from a command-line accessor" % name, c.loc())
        elif src[0] != acc or src[1] != flag:
            r.violate(key, "Options::%s is fed from %s(%r), expected %s(%r)" % (name, src[0], src[1], acc, flag), c.loc())
        elif pol is not None and src[2] != pol:
            r.violate(key, "Options::%s receives %s%s: polarity is inverted (documented: %s%s)" % (name, "" if src[2] else "!", flag, "" if pol else "!", flag), c.loc())
        else:
            r.ok(key, source="%s%s(%s)" % ("" if src[2] in (True, None) else "!", src[0], src[1]))
    # the Options handed to from_path / from_string is the end of the builder chain containing all five builders
    lib_calls = [c for c in m.calls() if c.name() in ("grass_compiler::from_path", "grass_compiler::from_string")]
    if len(lib_calls) < 2:
        r.violate("main|library-calls", "main must call grass::from_path and grass::from_string (found %d)" % len(lib_calls))
    for lc in lib_calls:
        chain = []
        ap = an.trace_operand(m, lc.args[1])
        guard = 0
        while ap.root[0] == "call" and guard < 12:
            cc = m.call_at(ap.root[2])
            chain.append(cc.name())
            if not cc.args:
                break
            ap = an.trace_operand(m, cc.args[0])
            guard += 1
        missing = [b for b in FLAG_MAP if (OPT + b) not in chain]
        key = "main|%s|options" % lc.name().rsplit("::", 1)[-1]
        if missing:
            r.violate(key, "%s is called with Options that were not configured by %s" % (lc.name(), missing), lc.loc())
        elif not chain or not chain[-1].endswith("Default>::default"):
            r.violate(key, "the Options chain of %s does not start from Options::default()" % lc.name(), lc.loc())
        else:
            r.ok(key, chain=[x.rsplit("::", 1)[-1] for x in chain])
    # input selection: from_path gets INPUT; from_string is used under STDIN with the text read from stdin
    for lc in lib_calls:
        a0 = an.trace_operand(m, lc.args[0])
        key = "main|%s|input" % lc.name().rsplit("::", 1)[-1]
        if lc.name().endswith("from_path"):
            ok = a0.root[0] == "call" and a0.root[1].endswith("ArgMatches::get_one") and an.trace_operand(m, m.call_at(a0.root[2]).args[1]).root == ("const", "INPUT")
            (r.ok(key) if ok else r.violate(key, "from_path is not called with the INPUT argument (%r)" % a0, lc.loc()))
        else:
            rd = [c for c in m.calls() if an.tail2(c.callee) == "Read::read_to_string"]
            ok = bool(rd) and an.trace_operand(m, rd[0].args[1]).root == a0.root and "Stdin" in (rd[0].name() or "")
            (r.ok(key) if ok else r.violate(key, "from_string is not called with the text read from stdin", lc.loc()))
    return r


def _style_mapping(m, c, r):
    # the value passed to Options::style is a local assigned in the arms of `match get_one::<Style>("STYLE")`
    ap = an.trace_operand(m, c.args[1])
    ok = True
    if ap.root[0] != "local":
        r.violate("main|style", "Options::style is not fed from a match on the STYLE argument (%r)" % ap, c.loc())
        return False
    table = {}
    for sw, sap, adt, variants, rv in common.discr_switches(m):
        if not (adt or "").endswith("Style"):
            continue
        arms = common.switch_arms(m, sw, variants)
        for var, tb in arms.items():
            if var == "_":
                continue
            region = common.exclusive_region(m, sw, tb) or {tb}
            for bb, i, pl, rv2, s in m.assignments():
                if bb in region and pl.local == ap.root[1] and rv2["k"] == "agg" and rv2.get("adt", "").endswith("OutputStyle"):
                    table[var] = rv2["variant"]
        src = sap
        s2 = _trace_to_accessor(m, sap)
        if s2 != ("get_one", "STYLE"):
            r.violate("main|style|source", "the style match is on %r, expected get_one(\"STYLE\")" % (sap,), c.loc())
            ok = False
    exp = {"Expanded": "Expanded", "Compressed": "Compressed"}
    if table == exp:
        r.ok("main|style", mapping=table)
    else:
        r.violate("main|style", "--style maps %s, expected %s" % (table, exp), c.loc())
        ok = False
    return ok


def _trace_to_accessor(m, ap):
    guard = 0
    while ap.root[0] == "call" and guard < 6:
        c = m.call_at(ap.root[2])
        t2 = an.tail2(c.callee)
        if t2.startswith("ArgMatches::"):
            name = an.trace_operand(m, c.args[1])
            return t2.split("::")[1], name.root[1] if name.root[0] == "const" else None
        if not c.args:
            return None
        ap = an.trace_operand(m, c.args[0])
        guard += 1
    return None


REORDERING = ("sort", "dedup", "reverse", "retain", "remove", "truncate", "swap", "drain", "clear", "rotate", "split_off", "pop", "insert", "push", "extend", "append", "shuffle")
ITER_REORDERING = ("Iterator::rev", "Iterator::filter", "Iterator::skip", "Iterator::take", "Iterator::step_by", "Iterator::chain", "Iterator::filter_map",
                   "Iterator::skip_while", "Iterator::take_while", "Iterator::cycle", "Iterator::zip", "Iterator::flat_map", "Iterator::peekable")


def rule_a2(ctx):
    r = RuleResult("C20-a", "list-valued options reach the library as given: the collection passed to Options::load_paths is the collected clap values, "
                   "never reordered, filtered or de-duplicated")
    prog, m = _main(ctx)
    fam = [b for b in prog.bodies.values() if b.path == m.path or b.path.startswith(m.path + "::{closure")]
    lp = [c for c in m.calls() if (c.name() or "").endswith("options::Options::load_paths")]
    if len(lp) != 1:
        raise AnchorMissing("main: expected one call of Options::load_paths, found %d" % len(lp))
    c = lp[0]
    # the Vec local behind the argument
    aliases_calls = set()
    cur = an.trace_operand(m, c.args[1], through_calls=False)
    g = 0
    while cur.root[0] == "call" and g < 6:
        cc = m.call_at(cur.root[2])
        if cc is None or an.tail2(cc.callee) not in ("Deref::deref", "AsRef::as_ref", "Vec::as_slice", "Borrow::borrow"):
            break
        aliases_calls.add(cc.bb)
        cur = an.trace_operand(m, cc.args[0], through_calls=False)
        g += 1
    key = "main|load_paths|order-preserved"
    problems = []
    if cur.root[0] == "call":
        src_call = m.call_at(cur.root[2])
        vec_local = src_call.dest.local if src_call is not None and src_call.dest is not None else None
    elif cur.root[0] == "local":
        vec_local = cur.root[1]
    else:
        vec_local = None
    if vec_local is None:
        raise AnchorMissing("main: cannot find the collection passed to Options::load_paths (%r)" % (cur,))
    # every other call that receives (a reference to) that local
    def refers(op, depth=0):
        if op.place is None or depth > 4:
            return False
        if op.place.local == vec_local:
            return True
        for bb, i, d in m.defs_of(op.place.local):
            if isinstance(d, dict) and d["k"] in ("ref", "use"):
                src = d["p"] if d["k"] == "ref" else d["op"].get("p")
                if src and refers(Operand({"k": "copy", "p": {"l": src["l"]}}), depth + 1):
                    return True
            elif not isinstance(d, dict) and an.tail2(d.callee) in ("Deref::deref", "DerefMut::deref_mut", "AsMut::as_mut", "Vec::as_mut_slice", "Vec::as_slice") and d.args and refers(d.args[0], depth + 1):
                return True
        return False
    for c2 in m.calls():
        if c2.bb == c.bb or not any(refers(a) for a in c2.args):
            continue
        leaf = (an.tail2(c2.callee) or "").split("::")[-1]
        if any(leaf.startswith(x) for x in REORDERING):
            problems.append("%s at %s" % (c2.callee, c2.loc()))
    # the iterator chain that builds it
    for fb in fam:
        for c2 in fb.calls():
            if an.tail2(c2.callee) in ITER_REORDERING and c2.fn_args and "clap" in c2.fn_args[0] and "String" in c2.fn_args[0]:
                problems.append("%s on the clap values at %s" % (an.tail2(c2.callee), c2.loc()))
    if problems:
        r.violate(key, "the load paths given on the command line are modified before they reach Options::load_paths (%s): the library searches load paths in the order "
                  "given, so the CLI no longer resolves imports the way the library does for the same options" % "; ".join(problems), c.loc())
    else:
        r.ok(key)
    return r


def rule_b(ctx):
    r = RuleResult("C20-b", "stdout/the output file receive exactly the Ok payload of the library call; the error path prints to stderr, exits non-zero and writes no CSS")
    prog, m = _main(ctx)
    fam = prog.family(m)
    writes = []
    for b in fam:
        for c in b.calls():
            n = c.name() or ""
            t2 = an.tail2(c.callee)
            if t2 in ("Write::write_all", "Write::write", "Write::write_fmt") or n in ("std::io::stdio::_print",):
                writes.append((b, c))
    if len(writes) != 1:
        r.violate("main|writes", "main performs %d output writes (%s); exactly one write_all of the compiled CSS is expected" % (len(writes), [w[1].name() for w in writes]))
        return r
    wb, w = writes[0]
    # receiver: `buf_out` is either the opened OUTPUT file or stdout
    # payload: as_bytes(unwrap_or_else(from_path|from_string (..), closure))
    ap = an.trace_operand(wb, w.args[1], through_calls=False)
    chain = []
    guard = 0
    cur = ap
    srcs = set()
    while cur.root[0] == "call" and guard < 8:
        cc = wb.call_at(cur.root[2])
        chain.append(an.tail2(cc.callee) or cc.name())
        if cc.name() in ("grass_compiler::from_path", "grass_compiler::from_string"):
            srcs.add(cc.name())
            break
        if not cc.args:
            break
        cur = an.trace_operand(wb, cc.args[0], through_calls=False)
        guard += 1
    if cur.root[0] == "local":
        # result assigned in both branches of `if let Some(INPUT) .. else if STDIN`
        for b_, i_, d in wb.defs_of(cur.root[1]):
            if hasattr(d, "name") and d.name() in ("grass_compiler::from_path", "grass_compiler::from_string"):
                srcs.add(d.name())
    key = "main|write_all|payload"
    allowed = {"str::as_bytes", "String::as_bytes", "Result::unwrap_or_else", "Deref::deref", "String::as_str"}
    extra = [x for x in chain if x not in allowed and not x.endswith("from_path") and not x.endswith("from_string")]
    if srcs == {"grass_compiler::from_path", "grass_compiler::from_string"} and not extra and "Result::unwrap_or_else" in chain:
        r.ok(key, chain=chain, sources=sorted(srcs))
    else:
        r.violate(key, "the bytes written by main are not exactly the Ok value of from_path/from_string (chain %s, sources %s)" % (chain, sorted(srcs)), w.loc())
    # receiver
    recv = an.trace_operand(wb, w.args[0])
    rdefs = []
    if recv.root[0] == "local":
        for b_, i_, d in wb.defs_of(recv.root[1]):
            if isinstance(d, dict):
                rdefs.append(repr(an.trace_operand(wb, Operand(d["op"])) if d["k"] in ("use", "cast") else d["k"]))
    key = "main|write_all|receiver"
    outs = set()
    for c in m.calls():
        if c.name() == "std::io::stdio::stdout":
            outs.add("stdout")
        if c.name() == "std::fs::OpenOptions::open":
            p = an.trace_operand(m, c.args[1])
            pc = m.call_at(p.root[2]) if p.root[0] == "call" else None
            if pc is not None and an.trace_operand(m, pc.args[1]).root == ("const", "OUTPUT"):
                outs.add("OUTPUT file")
            else:
                r.violate("main|open", "main opens a file that is not the OUTPUT argument (%r)" % p, c.loc())
    # the OUTPUT file is replaced, not overwritten in place: create + write + truncate, all true
    oo = {}
    for c in m.calls():
        nm = c.name() or c.callee or ""
        if nm.startswith("std::fs::OpenOptions::") and nm.rsplit("::", 1)[-1] in ("create", "write", "truncate", "append", "create_new", "read") and len(c.args) == 2:
            v = an.trace_operand(m, c.args[1])
            oo[nm.rsplit("::", 1)[-1]] = v.root[1] if v.root[0] == "const" else "?"
    if oo.get("create") is True and oo.get("write") is True and oo.get("truncate") is True and not oo.get("append"):
        r.ok("main|open|create-write-truncate", options={k: str(v) for k, v in oo.items()})
    else:
        r.violate("main|open|create-write-truncate", "main opens the OUTPUT file with %s; without create(true).write(true).truncate(true) a shorter result leaves the tail of an "
                  "earlier, longer file behind, so the file is not exactly the CSS the library returned" % {k: str(v) for k, v in oo.items()}, w.loc())
    if outs == {"stdout", "OUTPUT file"}:
        r.ok(key, sinks=sorted(outs))
    else:
        r.violate(key, "main's output sinks are %s, expected stdout and the OUTPUT file" % sorted(outs), w.loc())
    # error path: the closure passed to unwrap_or_else
    handlers = [b for b in fam if b.is_closure() and any((c.name() or "") == "std::process::exit" for c in b.calls())]
    if len(handlers) != 1:
        r.violate("main|error-handler", "expected exactly one error handler calling process::exit, found %d" % len(handlers))
        return r
    h = handlers[0]
    ex = [c for c in h.calls() if c.name() == "std::process::exit"][0]
    code = an.trace_operand(h, ex.args[0])
    key = "main|exit-code"
    if code.root[0] == "const" and int(code.root[1]) != 0:
        r.ok(key, code=code.root[1])
    else:
        r.violate(key, "the error handler exits with %r; a compile error must exit non-zero" % (code,), ex.loc())
    prints = [c for c in h.calls() if (c.name() or "").startswith("std::io::stdio::")]
    key = "main|error-stream"
    if prints and all(c.name() == "std::io::stdio::_eprint" for c in prints) and all(h.dominates(p.bb, ex.bb) for p in prints):
        # what is printed is the error itself
        fm = [c for c in h.calls() if c.name() in ("std::fmt::rt::Argument::new_display",)]
        shown = [repr(an.trace_operand(h, c.args[0])) for c in fm]
        r.ok(key, prints=shown)
    else:
        r.violate(key, "the error handler must print the error with eprintln! before exiting (found %s)" % [c.name() for c in prints], h.loc())
    # the handler is what unwrap_or_else receives for both library calls
    uo = [c for c in m.calls() if an.tail2(c.callee) == "Result::unwrap_or_else"]
    if not uo:
        r.violate("main|unwrap_or_else", "the library result is not unwrapped through the exiting error handler", m.loc())
    else:
        r.ok("main|unwrap_or_else")
    return r


def rule_c(ctx):
    r = RuleResult("C20-c", "I/O failures in main propagate (`?`) so the process exits non-zero")
    prog, m = _main(ctx)
    rt = m.local_ty(0)
    if not rt.startswith("std::result::Result<(), std::io::error::Error>"):
        r.violate("main|return-type", "main returns %s; I/O errors must propagate as io::Result<()> (non-zero exit through Termination)" % rt)
    else:
        r.ok("main|return-type", ty=rt)
    for c in m.calls():
        t2 = an.tail2(c.callee)
        if c.name() in ("std::fs::OpenOptions::open",) or t2 in ("Write::write_all", "Read::read_to_string"):
            # result must flow into Try::branch whose Break edge returns via from_residual
            consumers = [c2 for c2 in m.calls() if an.tail2(c2.callee) == "Try::branch" and an.trace_operand(m, c2.args[0], through_calls=False).root == ("call", c.name(), c.bb)]
            key = "main|%s|propagates" % t2
            if consumers:
                r.ok(key)
            else:
                r.violate(key, "the io::Result of %s in main is not propagated with `?`" % c.name(), c.loc())
    # a buffering wrapper defers the real write to flush()/drop, and Drop discards the io::Error: if main wraps its sink in one,
    # an explicit flush whose result propagates must lie on every path from the write to the normal return
    wrappers = [c for c in m.calls() if any(x in (c.callee or "") for x in ("BufWriter", "LineWriter")) and an.tail2(c.callee).split("::")[-1] in ("new", "with_capacity")]
    key = "main|buffered-sink-flushed"
    if not wrappers:
        r.ok(key, why="the sink is written directly (no BufWriter/LineWriter), write_all reports the OS error itself")
    else:
        writes = [c for c in m.calls() if an.tail2(c.callee) in ("Write::write_all", "Write::write", "Write::write_fmt")]
        flushes = []
        for c in m.calls():
            if an.tail2(c.callee) in ("Write::flush", "BufWriter::into_inner"):
                prop = [c2 for c2 in m.calls() if an.tail2(c2.callee) == "Try::branch" and an.trace_operand(m, c2.args[0], through_calls=False).root == ("call", c.name(), c.bb)]
                if prop:
                    flushes.append(c.bb)
        errs = an.err_exit_blocks(m)
        bad = [w for w in writes if not flushes or an.reach_avoiding(m, w.bb, set(flushes) | errs, set(m.exits()) - errs) is not None]
        if bad:
            r.violate(key, "main writes the CSS through a buffering wrapper (%s) and can return Ok without a propagated flush(): the real write happens in Drop, which "
                      "discards the io::Error, so a failed write exits 0 with nothing on stderr" % wrappers[0].callee, wrappers[0].loc())
        else:
            r.ok(key, why="buffered sink, flush()? on every path after the write")
    return r


RULES = [rule_a, rule_a2, rule_b, rule_c]
