"""C06 — output style changes only formatting: the style flag is confined to the final serializer."""
from ..core import RuleResult
from ..facts import AnchorMissing, Operand, Place
from .. import an
from . import common

SER_FILE = "serializer.rs"
ALLOWED_FILES = ("crates/compiler/src/serializer.rs", "crates/compiler/src/options.rs")
ALLOWED_ROOTS = ("grass_compiler::from_string_with_file_name",)
SER_FREE_FNS = ("serialize_selector_list", "serialize_calculation_arg", "serialize_number", "serialize_value", "inspect_value", "inspect_float",
                "inspect_map", "inspect_function_ref", "inspect_number")


def rule_a(ctx):
    r = RuleResult("C06-a", "the output style is read only by the final serializer; evaluation never stringifies with the user's style")
    prog = ctx.prog()
    seen = {}
    n_reads = 0
    for b in prog.bodies.values():
        if b.crate != "grass_compiler":
            continue
        inside = any(b.file.endswith(f) for f in ALLOWED_FILES) or b.root in ALLOWED_ROOTS
        for c in b.calls():
            n = c.name() or ""
            if n.endswith("options::Options::is_compressed"):
                n_reads += 1
                key = "%s|is_compressed" % b.root
                if inside:
                    r.ok(key) if key not in seen else None
                elif key not in seen:
                    r.violate(key, "%s reads the output style (Options::is_compressed) during evaluation: text produced there differs between expanded and compressed" % b.root, c.loc())
                seen[key] = 1
            if n.startswith("grass_compiler::serializer::") and n.rsplit("::", 1)[-1] in SER_FREE_FNS + ("new",) and not inside:
                # which Options does it serialize with?
                opts = [a for a in c.args if a.place is not None and "options::Options" in b.local_ty(a.place.local)]
                for o in opts:
                    ap = an.trace_operand(b, o)
                    fresh = ap.root[0] == "call" and an.tail2(ap.root[1]) in ("Default::default",)
                    key = "%s|%s" % (b.root, n.rsplit("::", 1)[-1])
                    if key in seen:
                        continue
                    seen[key] = 1
                    if fresh:
                        r.ok(key, options="Options::default()")
                    elif ap.root[0] == "call" and an.tail2(ap.root[1]) == "Options::style":
                        # Value::to_css_string: style chosen from its `is_compressed` parameter; callers are checked via is_compressed reads
                        r.ok(key, options="built from the is_compressed parameter (callers checked)")
                    else:
                        r.violate(key, "%s serializes a value for SassScript with the caller's Options (%r): the text depends on the output style" % (b.root, ap), c.loc())
        # direct reads of the `style` field
        for bb, i, pl, rv, s in b.assignments():
            for p2 in common._places_in_rv(rv):
                if any(e["k"] == "field" and e.get("n") == "style" and e.get("adt", "").endswith("options::Options") for e in p2.proj):
                    key = "%s|Options.style" % b.root
                    if key in seen:
                        continue
                    seen[key] = 1
                    if inside or b.root.endswith("Options::is_compressed") or "Debug" in b.root or "Clone" in b.root:
                        r.ok(key)
                    else:
                        r.violate(key, "%s reads Options.style directly" % b.root, "%s:%d" % (b.file, s["span"]["l"]))
    # non-constant `is_compressed` arguments to Value::to_css_string / Number::to_string come only from is_compressed() reads
    for b in prog.bodies.values():
        if b.crate != "grass_compiler":
            continue
        for c in b.calls():
            n = c.name() or ""
            if n.endswith("value::Value::to_css_string") or n.endswith("value::number::Number::to_string"):
                arg = c.args[-1]
                ap = an.trace_operand(b, arg)
                key = "%s|%s(style)" % (b.root, n.rsplit("::", 1)[-1])
                if key in seen:
                    continue
                seen[key] = 1
                if ap.root[0] == "const":
                    r.ok(key, style="constant %s" % ap.root[1])
                elif ap.root[0] == "call" and ap.root[1].endswith("Options::is_compressed"):
                    pass  # already reported at the is_compressed read of this function
                elif ap.root[0] == "arg":
                    r.ok(key, style="forwarded parameter (its callers are checked)")
                else:
                    r.violate(key, "%s passes a style flag of unknown origin (%r) to %s" % (b.root, ap, n.rsplit("::", 1)[-1]), c.loc())
    r.floor("is_compressed call sites", n_reads, 40)
    return r


def rule_b(ctx):
    r = RuleResult("C06-b", "in compressed mode a comment is kept only if it starts with `/*!`")
    prog = ctx.prog()
    b = prog.one("Serializer::write_comment")
    tests = common.str_tests(b)
    lits = {(m, l) for c, m, l in tests}
    if ("starts_with", "/*!") in lits:
        # the retention test is consulted together with is_compressed
        ic = [c for c in b.calls() if (c.name() or "").endswith("Options::is_compressed")]
        if ic:
            r.ok("write_comment|/*!-test-under-compressed")
        else:
            r.violate("write_comment|compressed", "write_comment tests `/*!` but does not consult the output style", b.loc())
    else:
        r.violate("write_comment|/*!", "write_comment no longer keeps exactly the comments starting with `/*!` in compressed mode (tests: %s)" % sorted(lits), b.loc())
    return r



def rule_c(ctx):
    """Compressed-only colour spellings (short hex, names) denote the same colour: shared with C15-c."""
    from . import c15
    r = c15.rule_c(ctx)
    r.rule = "C06-c"
    r.title = "compressed colour spellings are equivalent: " + r.title
    for v in r.violations:
        v.rule = "C06-c"
    return r



def rule_d(ctx):
    r = RuleResult("C06-d", "compressed number spelling drops only a literal leading `0`: no string is cut at a constant offset without a test of the prefix being cut off")
    prog = ctx.prog()
    n = 0
    for b in prog.bodies.values():
        if b.crate != "grass_compiler":
            continue
        for c in b.calls():
            if an.tail2(c.callee) != "Index::index" or not c.fn_args or c.fn_args[0] not in ("str", "std::string::String") or len(c.fn_args) < 2:
                continue
            if not c.fn_args[1].startswith("std::ops::range::Range"):
                continue
            n += 1
            # start of the range: constant >= 1 ?
            start = None
            if c.args[1].place is not None and not c.args[1].place.proj:
                for bb, i, d in b.defs_of(c.args[1].place.local):
                    if isinstance(d, dict) and d["k"] == "agg" and d.get("ops"):
                        o = Operand(d["ops"][0])
                        if o.const is not None:
                            try:
                                start = int(o.const_value())
                            except (TypeError, ValueError):
                                start = None
            if not start:
                continue  # computed offsets are position arithmetic, checked elsewhere (C14-c) or index-derived
            subject = an.trace_operand(b, c.args[0])
            key = "%s|cut-at-%d" % (b.path, start)
            tested = False
            for d_ in b.dominators(c.bb):
                cc = b.call_at(d_)
                if cc is not None and an.tail2(cc.callee) in ("str::starts_with", "str::strip_prefix", "str::as_bytes", "str::chars") and cc.args and an.trace_operand(b, cc.args[0]) == subject:
                    tested = True
            if tested:
                r.ok(key, subject=repr(subject))
            else:
                r.violate(key, "%s drops the first %d byte(s) of %r without looking at them: a number in [0.99999999995, 1) is formatted as `1.0000000000`, so compressed "
                          "output prints it as `0` where expanded output prints `1`" % (b.path, start, subject), c.loc())
    r.floor("string index-slice sites examined", n, 5)
    return r



STRING_CONTENT_WRITERS = ("serializer::Serializer::visit_quoted_string", "serializer::Serializer::visit_unquoted_string")


def rule_e(ctx):
    r = RuleResult("C06-e", "the serializer functions that copy the *contents* of a string value into the output do not consult the output style "
                   "(whitespace inside a string is part of the value, not formatting)")
    prog = ctx.prog()
    n = 0
    for fn in STRING_CONTENT_WRITERS:
        b = prog.one(fn)
        fam = [b] + list(prog.closures_of(b))
        reads = []
        for fb in fam:
            for c in fb.calls():
                nm = c.name() or ""
                if nm.endswith("Options::is_compressed") or nm.endswith("Options::style"):
                    reads.append(c)
            for bb, i, pl, rv, st in fb.assignments():
                for opnd in ([rv.get("op")] if rv.get("k") == "use" else []):
                    if isinstance(opnd, dict) and "p" in opnd and any(e.get("k") == "field" and e.get("n") == "style" for e in opnd["p"].get("p", [])):
                        reads.append(None)
        n += 1
        key = "%s|style-independent" % fn.rsplit("::", 1)[-1]
        if not reads:
            r.ok(key)
        else:
            loc = next((c.loc() for c in reads if c is not None), b.loc())
            r.violate(key, "%s consults the output style while copying a string's characters: the contents of a string value (for example two spaces inside `url(\"a  b\")`) then "
                      "differ between expanded and compressed output" % fn, loc)
    r.floor("string content writers", n, 2)
    return r


RULES = [rule_a, rule_b, rule_c, rule_d, rule_e]
