"""Guarded unit conversion (P2 with operand matching and exported obligations).
Shared by C01-b ("never panics in unit conversion"), C08-c and C16."""
from ..core import RuleResult
from ..facts import AnchorMissing, Operand
from .. import an, psa, sl
from . import common

COMPARABLE = "grass_compiler::unit::Unit::comparable"
CONVERT = "grass_compiler::value::number::Number::convert"
FACTOR = "grass_compiler::value::sass_number::conversion_factor"
TABLE = "grass_compiler::unit::conversion::UNIT_CONVERSION_TABLE"
# wrapper that additionally excludes "exactly one side unitless" (structure verified on every run)
COMPAT_WRAPPERS = {"grass_compiler::value::sass_number::SassNumber::has_compatible_units"}


def table(prog):
    t = sl.eval_lazy_static(prog, "unit::conversion::UNIT_CONVERSION_TABLE")
    if not isinstance(t, sl.Map):
        raise AnchorMissing("UNIT_CONVERSION_TABLE initialiser is not table-shaped")
    out = {}
    for k, v in t.items:
        if not isinstance(v, sl.Map):
            raise AnchorMissing("UNIT_CONVERSION_TABLE row %r is not a map" % (k,))
        out[k.name] = {kk.name: vv for kk, vv in v.items}
    return out


_summ = {}


def guard_summary(prog, name, depth=0):
    """If calling `name` returning true implies comparable(X, Y) for access paths X, Y rooted in its
    arguments: ('CMP'|'COMPAT', X, Y); else None."""
    key = (id(prog), name)
    if key in _summ:
        return _summ[key]
    _summ[key] = None
    if name == COMPARABLE:
        _summ[key] = ("CMP", an.AP(("arg", 1)), an.AP(("arg", 2)))
        return _summ[key]
    b = prog.bodies.get(name)
    if b is None or depth > 3 or len(b.blocks) > 60:
        return None
    if not b.j["locals"] or b.local_ty(0) != "bool":
        return None
    found = None
    for path in common.enum_paths(b, 200):
        ret = common.path_return(b, path)
        if ret[0] == "const" and ret[1] is False:
            continue
        if ret[0] == "call" and ret[2] is True:
            c = ret[1]
            inner = guard_summary(prog, c.name(), depth + 1)
            if inner is None:
                return None
            x = instantiate(b, c, inner[1])
            y = instantiate(b, c, inner[2])
            if x is None or y is None or x.root[0] != "arg" or (y.root[0] not in ("arg", "const")):
                return None
            cand = (inner[0], x, y)
            if found is not None and (found[1] != cand[1] or found[2] != cand[2]):
                return None
            found = cand
        else:
            return None
    if found is not None and name in COMPAT_WRAPPERS:
        # structural confirmation of the unitless exclusion: both operands are compared with Unit::None
        nones = 0
        for c in b.calls():
            if an.tail2(c.callee) in ("PartialEq::eq", "PartialEq::ne"):
                aps = [an.trace_operand(b, a) for a in c.args]
                if any(a.root == ("const", "Unit::None") for a in aps):
                    nones += 1
        if nones >= 2:
            found = ("COMPAT", found[1], found[2])
    _summ[key] = found
    return found


def instantiate(body, call, ap):
    """Substitute a callee-side access path (rooted at ('arg', i)) with the actual argument."""
    if ap.root[0] == "const":
        return ap
    if ap.root[0] != "arg":
        return None
    i = ap.root[1] - 1
    if i >= len(call.args):
        return None
    act = an.trace_operand(body, call.args[i])
    return act.extend(ap.proj)


def pair_key(a, b):
    return frozenset([a.key(), b.key()])


class Site:
    def __init__(self, call, kind, frm, to):
        self.call = call
        self.kind = kind  # 'convert' | 'factor'
        self.frm = frm
        self.to = to


def const_unit(ap):
    if ap.root[0] == "const" and isinstance(ap.root[1], str) and ap.root[1].startswith("Unit::") and not ap.proj:
        return ap.root[1][len("Unit::"):]
    return None


def find_sites(prog):
    sites = []
    for b in prog.bodies.values():
        if b.crate != "grass_compiler":
            continue
        for c in b.calls():
            n = c.name()
            if n == CONVERT:
                sites.append(Site(c, "convert", an.trace_operand(b, c.args[1]), an.trace_operand(b, c.args[2])))
            elif n == FACTOR:
                # only when the Option result is unwrapped
                unwrapped = False
                for c2 in b.calls():
                    if an.tail2(c2.callee) in ("Option::unwrap", "Option::expect"):
                        ap = an.trace_operand(b, c2.args[0], through_calls=False)
                        if ap.root[0] == "call" and ap.root[2] == c.bb:
                            unwrapped = True
                if unwrapped:
                    sites.append(Site(c, "factor", an.trace_operand(b, c.args[0]), an.trace_operand(b, c.args[1])))
    return sites


def make_classifier(prog, A, B):
    pk = pair_key(A, B)

    def classify(kind, obj, body, sw):
        if kind == "call":
            c = obj
            t2 = an.tail2(c.callee)
            summ = guard_summary(prog, c.name())
            if summ is not None:
                x = instantiate(body, c, summ[1])
                y = instantiate(body, c, summ[2])
                if x is not None and y is not None and pair_key(x, y) == pk:
                    return psa.Pred((summ[0], pk), [x, y]), False
                # has_compatible_units is an equivalence relation (unitless only with unitless; otherwise same
                # conversion class or equal unit), so facts about a third operand chain transitively
                if x is not None and y is not None and summ[0] == "COMPAT" and (x in (A, B) or y in (A, B)):
                    return psa.Pred(("COMPAT", pair_key(x, y)), [x, y]), False
                return None
            if t2 in ("Option::is_some", "Option::is_none"):
                x = an.trace_operand(body, c.args[0])
                if psa.ap_prefix(x, A) or psa.ap_prefix(x, B):
                    return psa.Pred(("SOME", x.key()), [x]), t2 == "Option::is_none"
                return None
            if t2 in ("PartialEq::eq", "PartialEq::ne") and len(c.args) == 2:
                x = an.trace_operand(body, c.args[0])
                y = an.trace_operand(body, c.args[1])
                neg = t2 == "PartialEq::ne"
                for u, v in ((x, y), (y, x)):
                    if v.root == ("const", "Unit::None") and (u == A or u == B):
                        return psa.Pred(("ISNONE", u.key()), [u]), neg
                if pair_key(x, y) == pk:
                    return psa.Pred(("EQ", pk), [x, y]), neg
            return None
        if kind == "discr":
            ap, rv = obj
            if (rv.get("adt") or "").endswith("unit::Unit"):
                base = an.AP(ap.root, ap.proj[:-1]) if ap.proj and ap.proj[-1] == "<discr>" else ap
                if base == A or base == B:
                    return psa.Pred(("VAR", base.key()), [base]), False
        return None

    return classify


def satisfied(site, v, T):
    """Does valuation v discharge the obligation of `site`?  Returns (ok, residual) where residual
    describes what is still needed when not ok."""
    A, B = site.frm, site.to
    pk = pair_key(A, B)
    if A == B:
        return True
    if v.get(("EQ", pk)) is True:
        return True
    ca, cb = const_unit(A), const_unit(B)

    def in_class(ap_var, unit_const, allow_none):
        vs = v.get(("VAR", ap_var.key()))
        if vs is None:
            return False
        ok = set(T.get(unit_const, {}).keys()) | {unit_const}
        if allow_none:
            ok.add("None")
        return set(vs) <= ok

    if v.get(("COMPAT", pk)) is not True and _compat_connected(v, A, B):
        v = dict(v)
        v[("COMPAT", pk)] = True
    if site.kind == "convert":
        if v.get(("CMP", pk)) is True or v.get(("COMPAT", pk)) is True:
            return True
        if v.get(("ISNONE", A.key())) is True or v.get(("ISNONE", B.key())) is True:
            return True  # Number::convert returns early when either unit is None
        if cb is not None and in_class(A, cb, True):
            return True
        if ca is not None and in_class(B, ca, True):
            return True
        return False
    # factor: conversion_factor(from, to).unwrap() needs the pair to be equal or in the table
    none_a = v.get(("ISNONE", A.key()))
    none_b = v.get(("ISNONE", B.key()))
    a_not_none = none_a is False or (ca is not None and ca != "None") or _var_excludes_none(v, A)
    b_not_none = none_b is False or (cb is not None and cb != "None") or _var_excludes_none(v, B)
    if v.get(("COMPAT", pk)) is True and (a_not_none or b_not_none):
        return True
    if v.get(("CMP", pk)) is True and a_not_none and b_not_none:
        return True
    if cb is not None and in_class(A, cb, False):
        return True
    if ca is not None and in_class(B, ca, False):
        return True
    return False


def _compat_connected(v, A, B):
    """A ~ B through a chain of established has_compatible_units facts (equivalence relation)."""
    edges = [k[1] for k, x in v.items() if k[0] == "COMPAT" and x is True and len(k[1]) == 2]
    reach = {A.key()}
    changed = True
    while changed:
        changed = False
        for e in edges:
            a, b = tuple(e)
            if a in reach and b not in reach:
                reach.add(b)
                changed = True
            elif b in reach and a not in reach:
                reach.add(a)
                changed = True
    return B.key() in reach


def _var_excludes_none(v, ap):
    vs = v.get(("VAR", ap.key()))
    return vs is not None and "None" not in vs


def check_site(prog, site, T, depth=0, trail=()):
    """Returns list of failures: (message, where).  Empty list = discharged."""
    body = site.call.body
    A, B = site.frm, site.to
    classify = make_classifier(prog, A, B)
    vals, complete = psa.valuations_at(body, site.call.bb, classify)
    if not complete:
        return [("analysis budget exceeded in %s" % body.path, site.call.loc())], None
    bad = [v for v in vals if not satisfied(site, v, T)]
    if not bad:
        return [], {"valuations": len(vals)}
    # exported obligation: operands rooted in parameters (or constants) and the function is not an entry point
    roots_ok = all(ap.root[0] in ("arg", "const") for ap in (A, B))
    if roots_ok and depth < 3:
        callers = callers_of(prog, body)
        if callers:
            # what the callee already established on every failing valuation (None excluded locally?)
            none_excl_a = all(v.get(("ISNONE", A.key())) is False for v in bad)
            none_excl_b = all(v.get(("ISNONE", B.key())) is False for v in bad)
            fails = []
            info = {"exported_to": []}
            for cc in callers:
                a2 = instantiate(cc.body, cc, A)
                b2 = instantiate(cc.body, cc, B)
                if a2 is None or b2 is None:
                    fails.append(("cannot map operands of %s at its caller %s" % (body.path, cc.body.path), cc.loc()))
                    continue
                kind = site.kind
                s2 = Site(cc, kind, a2, b2)
                s2.none_ok = (none_excl_a, none_excl_b)
                f2, i2 = check_site_with_none(prog, s2, T, depth + 1, trail + (body.path,))
                info["exported_to"].append(cc.body.path)
                fails.extend(f2)
            return fails, info
    v0 = bad[0]
    desc = ", ".join("%s=%s" % (k[0], sorted(x) if isinstance(x, frozenset) else x) for k, x in v0.items() if k[0] != "ALIAS") or "no relevant guard on this path"
    via = (" (obligation exported from %s)" % " <- ".join(trail)) if trail else ""
    what = "Number::convert" if site.kind == "convert" else "conversion_factor(..).unwrap()"
    return [(
        "%s on units (%r -> %r) in %s is not guarded by comparable()/is_comparable_to()/has_compatible_units() on the same pair on every path%s; "
        "unguarded path facts: %s" % (what, A, B, body.path, via, desc),
        site.call.loc(),
    )], None


def check_site_with_none(prog, site, T, depth, trail):
    """Caller-side check of an exported obligation: the callee already handles a unitless operand
    when site.none_ok says so, so a VAR set may contain None."""
    na, nb = getattr(site, "none_ok", (False, False))
    if site.kind == "factor" and (na or nb):
        # relax: treat as 'convert'-like w.r.t. None on the excluded side
        body = site.call.body
        classify = make_classifier(prog, site.frm, site.to)
        vals, complete = psa.valuations_at(body, site.call.bb, classify)
        if not complete:
            return [("analysis budget exceeded in %s" % body.path, site.call.loc())], None
        bad = []
        for v in vals:
            v2 = dict(v)
            if na:
                vs = v2.get(("VAR", site.frm.key()))
                if vs is not None:
                    v2[("VAR", site.frm.key())] = frozenset(x for x in vs if x != "None")
                else:
                    v2[("ISNONE", site.frm.key())] = False
            if nb:
                vs = v2.get(("VAR", site.to.key()))
                if vs is not None:
                    v2[("VAR", site.to.key())] = frozenset(x for x in vs if x != "None")
                else:
                    v2[("ISNONE", site.to.key())] = False
            if not satisfied(site, v2, T):
                bad.append(v)
        if not bad:
            return [], {"valuations": len(vals)}
        v0 = bad[0]
        desc = ", ".join("%s=%s" % (k[0], sorted(x) if isinstance(x, frozenset) else x) for k, x in v0.items() if k[0] != "ALIAS") or "no relevant guard on this path"
        return [(
            "conversion_factor(..).unwrap() reached through %s with units (%r -> %r) from %s without a guard establishing convertibility; path facts: %s"
            % (" <- ".join(trail), site.frm, site.to, body.path, desc),
            site.call.loc(),
        )], None
    return check_site(prog, site, T, depth, trail)


def callers_of(prog, body):
    out = []
    for b in prog.bodies.values():
        for c in b.calls():
            if body.path in prog.call_targets(c):
                out.append(c)
    return out


def run(ctx, rule_id, title, only_files=None):
    r = RuleResult(rule_id, title)
    prog = ctx.prog()
    T = table(prog)
    sites = find_sites(prog)
    n = 0
    for s in sites:
        f = s.call.body.file
        if only_files and not any(f.endswith(x) for x in only_files):
            continue
        n += 1
        fn = s.call.body.path
        what = "convert" if s.kind == "convert" else "conversion_factor.unwrap"
        key = "%s|%s(%s,%s)" % (fn, what, stable_ap(s.call.body, s.frm), stable_ap(s.call.body, s.to))
        fails, info = check_site(prog, s, T)
        if not fails:
            r.ok(key, **(info or {}))
        else:
            for msg, where in fails:
                r.violate(key, msg, where)
    # P1: the raw table index lives only in Number::convert; conversion_factor only uses get()
    for b in prog.bodies.values():
        for c in b.calls():
            if an.tail2(c.callee) == "Index::index":
                ap = an.trace_operand(b, c.args[0])
                if ap.root[0] == "static" and ap.root[1].endswith("UNIT_CONVERSION_TABLE") or "UNIT_CONVERSION_TABLE" in repr(ap):
                    key = "%s|index UNIT_CONVERSION_TABLE" % b.path
                    if b.path == CONVERT:
                        r.ok(key)
                    else:
                        r.violate(key, "UNIT_CONVERSION_TABLE is indexed (panicking `[]`) outside Number::convert, in %s" % b.path, c.loc())
    return r, n


def stable_ap(body, ap):
    """Render an access path without MIR local / block numbers (keys must survive unrelated edits)."""
    import re
    r = ap.root
    if r[0] == "local":
        head = body.local_name(r[1]) or "tmp"
    elif r[0] == "arg":
        head = body.local_name(r[1]) or ("arg%d" % r[1])
    elif r[0] == "call":
        head = r[1].rsplit("::", 1)[-1] + "()"
    elif r[0] == "const":
        head = str(r[1])
    else:
        head = str(r[0])
    return ".".join([head] + [p for p in ap.proj])


def _strip_bbs(s):
    import re
    return re.sub(r"@\d+", "", s)
