"""C05 — output is well-formed, Sass-free CSS (encoding, charset and visibility clauses)."""
from ..core import RuleResult
from ..facts import AnchorMissing, Operand, Place
from .. import an, psa
from . import common

SER = "grass_compiler::serializer::Serializer"
NON_MUTATING = {"Vec::len", "Vec::is_empty", "Vec::reserve", "Deref::deref", "Vec::iter", "[T]::iter", "Vec::capacity", "Vec::as_slice",
                "Vec::new", "Vec::with_capacity", "Clone::clone", "Vec::clear", "[T]::len", "[T]::is_empty", "Debug::fmt", "[T]::last", "[T]::first",
                "[T]::ends_with", "[T]::starts_with", "Vec::shrink_to_fit", "Vec::reserve_exact"}
FORBIDDEN = {"Vec::truncate", "Vec::pop", "Vec::remove", "Vec::drain", "Vec::set_len", "Vec::insert", "Vec::swap_remove", "IndexMut::index_mut",
             "Vec::retain", "Vec::split_off", "Vec::resize", "Vec::dedup", "DerefMut::deref_mut", "Vec::as_mut_slice", "Vec::as_mut_ptr", "Vec::splice",
             "Vec::extend_from_within", "Vec::retain_mut", "[T]::swap", "[T]::reverse", "[T]::fill", "[T]::copy_from_slice"}
# helpers returning a single ASCII character, one line of reason each
ASCII_HELPERS = {
    "grass_compiler::utils::chars::hex_char_for": "returns '0'..='9' / 'a'..='f' for its argument < 16 (callers pass c >> 4 and c & 0xF of a control character)",
}


def _u8vec_receiver(body, c):
    if not c.args or c.args[0].place is None:
        return None
    ty = body.local_ty(c.args[0].place.local)
    if "std::vec::Vec<u8>" not in ty:
        return None
    return an.trace_operand(body, c.args[0])


def _const_bytes(ap):
    if ap.root[0] == "const" and not ap.proj:
        v = ap.root[1]
        if isinstance(v, str):
            if v.startswith("b'") or v.startswith('b"'):
                try:
                    import ast
                    return list(ast.literal_eval(v))
                except Exception:
                    return None
            try:
                return [int(v)]
            except ValueError:
                return list(v.encode("utf-8"))
    return None


def _chain(body, ap, limit=8):
    """Names of the calls along the first-argument chain that produced `ap` (e.g. peekable<-copied<-iter<-as_bytes)."""
    names = []
    g = 0
    while ap.root[0] == "call" and g < limit:
        c = body.call_at(ap.root[2])
        if c is None:
            break
        names.append(an.tail2(c.callee))
        if not c.args:
            break
        ap = an.trace_operand(body, c.args[0], through_calls=False)
        g += 1
    names.append(repr(ap))
    return " <- ".join(names)


def _byte_subjects(body):
    """Access paths that denote 'the current byte of a str being copied': (next-call Call, AP of the byte)."""
    out = []
    for c in body.calls():
        if an.tail2(c.callee) != "Iterator::next" or not c.args or c.args[0].place is None:
            continue
        ity = body.local_ty(c.args[0].place.local)
        src = _chain(body, an.trace_operand(body, c.args[0]))
        is_bytes = "std::str::iter::Bytes" in ity or ("u8" in ity and ("as_bytes" in src or "bytes" in src))
        if is_bytes:
            out.append(c)
    return out


def rule_a(ctx):
    r = RuleResult("C05-a", "every byte written to the serializer's buffers comes from a whole UTF-8 string or is ASCII (safety condition of from_utf8_unchecked)")
    prog = ctx.prog()
    n = 0
    counts = {}
    for b in prog.bodies.values():
        if b.crate != "grass_compiler":
            continue
        in_ser = b.file.endswith("serializer.rs")
        subjects = _byte_subjects(b) if in_ser else []
        subj_aps = {}
        for nc in subjects:
            subj_aps[an.AP(("call", nc.name(), nc.bb), ("as:Some", "0")).key()] = nc
        for c in b.calls():
            recv = _u8vec_receiver(b, c)
            if recv is None:
                continue
            is_ser_buf = recv.proj and recv.proj[-1] == "buffer" and in_ser
            if not in_ser:
                # outside serializer.rs nobody may touch a Serializer's buffer
                if recv.proj and recv.proj[-1] == "buffer" and any(e.get("adt", "").endswith("serializer::Serializer") for e in (c.args[0].place.proj if c.args[0].place else [])):
                    r.violate("%s|touches Serializer.buffer" % b.root, "%s accesses Serializer.buffer from outside serializer.rs" % b.path, c.loc())
                continue
            t2 = an.tail2(c.callee)
            key = "%s|%s" % (b.root.rsplit("::", 1)[-1], t2)
            counts[t2] = counts.get(t2, 0) + 1
            if t2 in NON_MUTATING or t2 == "String::from_utf8_unchecked" or t2 in ("IntoIterator::into_iter",):
                continue
            n += 1
            if t2 in FORBIDDEN:
                r.violate(key, "%s applies %s to a byte buffer that is later converted with from_utf8_unchecked: a multi-byte sequence may be cut" % (b.path, t2), c.loc())
                continue
            if t2 == "Write::write_fmt":
                r.ok(key, why="fmt machinery writes whole strs")
                continue
            if t2 == "Vec::append":
                src = an.trace_operand(b, c.args[1], through_calls=False)
                if src.root[0] == "call" and an.tail2(src.root[1]) == "String::into_bytes":
                    r.ok(key, why="appends String::into_bytes()")
                else:
                    r.violate(key, "%s appends bytes that are not a whole String (%r)" % (b.path, src), c.loc())
                continue
            if t2 == "Vec::extend_from_slice":
                src = an.trace_operand(b, c.args[1], through_calls=False)
                srct = an.trace_operand(b, c.args[1])
                bs = _const_bytes(srct)
                if src.root[0] == "call" and an.tail2(src.root[1]) in ("str::as_bytes", "String::as_bytes"):
                    r.ok(key, why="whole str")
                elif bs is not None:
                    try:
                        bytes(bs).decode("utf-8")
                        r.ok(key, why="UTF-8 literal")
                    except UnicodeDecodeError:
                        r.violate(key, "%s writes a byte-string literal that is not valid UTF-8" % b.path, c.loc())
                elif c.args[1].place is not None and "std::vec::Vec<u8>" in b.local_ty(c.args[1].place.local) or (srct.root[0] == "call" and an.tail2(srct.root[1]) == "Vec::new"):
                    r.ok(key, why="local buffer built under the same rule")
                else:
                    r.violate(key, "%s extends the output buffer with bytes of unknown provenance (%r)" % (b.path, srct), c.loc())
                continue
            if t2 == "Vec::push":
                v = an.trace_operand(b, c.args[1])
                bs = _const_bytes(v)
                if bs is not None:
                    if all(x < 0x80 for x in bs):
                        r.ok(key + "|const")
                    else:
                        r.violate(key + "|const", "%s pushes the non-ASCII byte %s" % (b.path, bs), c.loc())
                    continue
                if v.key() in subj_aps:
                    r.ok(key + "|pass-through", why="copies the current byte of the source str (order checked by the loop rule)")
                    continue
                vr = an.trace_operand(b, c.args[1], through_calls=False)
                if vr.root[0] == "call" and vr.root[1] in ASCII_HELPERS:
                    r.ok(key + "|helper", why=ASCII_HELPERS[vr.root[1]])
                    continue
                if v.root[0] == "local" and not v.proj:
                    defs = b.defs_of(v.root[1])
                    vals = []
                    for db, di, d in defs:
                        if isinstance(d, dict) and d["k"] == "use" and d["op"]["k"] == "const":
                            vals.append(int(Operand(d["op"]).const_value()))
                        else:
                            vals.append(None)
                    if vals and all(x is not None and x < 0x80 for x in vals):
                        r.ok(key + "|const-choice", values=vals)
                        continue
                r.violate(key, "%s pushes a byte of unknown provenance (%r) into the output buffer" % (b.path, v), c.loc())
                continue
            r.violate(key, "%s applies %s (not in the reviewed list of UTF-8-preserving operations) to the output buffer" % (b.path, t2), c.loc())
        # copy loops: while handling a non-ASCII byte nothing but the byte itself may be written
        for nc in subjects:
            _check_copy_loop(r, b, nc)
    r.floor("buffer mutation sites", n, 140)
    r.floor("byte-copy loops", sum(1 for b in prog.bodies.values() if b.file.endswith("serializer.rs") for _ in _byte_subjects(b)), 2)
    r.note("operation counts on Vec<u8> in serializer.rs: %s" % counts)
    return r


def _check_copy_loop(r, b, nc):
    cap = an.AP(("call", nc.name(), nc.bb), ("as:Some", "0"))
    nap = an.AP(("call", nc.name(), nc.bb))
    U = frozenset(range(256))
    HI = frozenset(range(128, 256))

    def classify(kind, obj, body, sw):
        if kind == "place" and obj == cap:
            return psa.Pred(("BYTE",), [nap], universe=U), False
        if kind == "binop":
            op, x, y = obj
            ax, ay = an.trace_operand(body, x), an.trace_operand(body, y)
            for subj, other, flip in ((ax, ay, False), (ay, ax, True)):
                if subj == cap and other.root[0] == "const":
                    try:
                        k = int(other.root[1])
                    except (ValueError, TypeError):
                        return None
                    o = op
                    if flip:
                        o = {"Lt": "Gt", "Le": "Ge", "Gt": "Lt", "Ge": "Le"}.get(op, op)
                    f = {"Lt": lambda v: v < k, "Le": lambda v: v <= k, "Gt": lambda v: v > k, "Ge": lambda v: v >= k,
                         "Eq": lambda v: v == k, "Ne": lambda v: v != k}.get(o)
                    if f is None:
                        return None
                    return psa.Pred(("BYTE",), [nap], universe=U, to_set=lambda truth, f=f: frozenset(v for v in U if f(v) == truth)), False
            return None
        if kind == "discr":
            ap, rv = obj
            base = an.AP(ap.root, ap.proj[:-1]) if ap.proj and ap.proj[-1] == "<discr>" else ap
            if base == nap:
                return psa.Pred(("HAVE",), [nap], variant_true="Some"), False
        return None

    fn = b.root.rsplit("::", 1)[-1]
    passthrough = [c for c in b.calls() if an.tail2(c.callee) == "Vec::push" and an.trace_operand(b, c.args[1]) == cap]
    if not passthrough:
        r.violate("%s|copy-loop|pass-through" % fn, "%s iterates the bytes of a str but never writes the byte itself: non-ASCII text cannot be preserved" % b.path, nc.loc())
        return
    pt_blocks = {c.bb for c in passthrough}
    # (i) other writes while a non-ASCII byte is current
    for c in b.calls():
        t2 = an.tail2(c.callee)
        if t2 not in ("Vec::push", "Vec::extend_from_slice") or c.bb in pt_blocks:
            continue
        if _u8vec_receiver(b, c) is None:
            continue
        vals, complete = psa.valuations_at(b, c.bb, classify)
        bad = [v for v in vals if v.get(("HAVE",)) is True and (v.get(("BYTE",), U) & HI)]
        key = "%s|copy-loop|write-while-non-ascii" % fn
        if complete and not bad:
            r.ok(key)
        else:
            r.violate(key, "%s writes extra bytes while the current source byte may be >= 0x80 (inside a multi-byte sequence)" % b.path, c.loc())
    # (ii) a non-ASCII byte is never dropped: the next iteration / a return is not reached without passing the pass-through push
    exits = [nc.bb] + b.exits()
    for e in exits:
        vals, complete = psa.valuations_at(b, e, classify, avoid=pt_blocks)
        bad = [v for v in vals if v.get(("HAVE",)) is True and (v.get(("BYTE",), U) & HI)]
        key = "%s|copy-loop|non-ascii-byte-is-copied" % fn
        if complete and not bad:
            r.ok(key)
        else:
            r.violate(key, "%s can finish handling a byte >= 0x80 without copying it to the output (escaped/dropped arm also matches non-ASCII bytes)" % b.path, nc.loc())


def rule_b(ctx):
    r = RuleResult("C05-b", "unsafe inventory: exactly the three reviewed blocks, each with its obligation")
    prog = ctx.prog()
    blocks = []
    for crate, u in prog.hir_items("unsafe_blocks"):
        if u["span"].get("exp"):
            continue  # produced by std macros (thread_local!)
        blocks.append((crate, u))
    expected = {
        "grass_compiler::interner::InternedString::resolve_ref": "interned strings are never freed while the thread lives (no Rodeo::clear / into_*)",
        "grass_compiler::serializer::Serializer::finish_for_expr": "buffer is valid UTF-8 by C05-a",
        "grass_compiler::serializer::Serializer::finish": "buffer is valid UTF-8 by C05-a",
    }
    from ..facts import norm
    seen = set()
    for crate, u in blocks:
        fn = norm(u["fn"])
        seen.add(fn)
        key = "unsafe|%s" % fn
        if fn in expected:
            r.ok(key, obligation=expected[fn])
        else:
            r.violate(key, "new unsafe block in %s: not covered by any reviewed obligation" % fn, "%s:%d" % (u["span"]["file"], u["span"]["l"]))
    for fn in expected:
        if fn not in seen:
            r.note("reviewed unsafe block in %s no longer exists" % fn)
    for crate, p in prog.hir_items("unsafe_impls"):
        if not any(x in p for x in ("TrivialClone",)):
            r.violate("unsafe-impl|%s" % p, "unsafe impl %s" % p)
    for crate, f in prog.hir_items("fns"):
        if f.get("unsafe"):
            r.violate("unsafe-fn|%s" % f["path"], "unsafe fn %s" % f["path"])
    # from_utf8_unchecked only on Serializer.buffer
    n = 0
    for b in prog.bodies.values():
        for c in b.calls():
            t2 = an.tail2(c.callee)
            if t2 in ("String::from_utf8_unchecked", "str::from_utf8_unchecked"):
                n += 1
                src = an.trace_operand(b, c.args[0])
                key = "%s|from_utf8_unchecked" % b.root
                if b.root.startswith(SER) and repr(src).endswith("arg1.buffer"):
                    r.ok(key)
                else:
                    r.violate(key, "from_utf8_unchecked applied to %r in %s" % (src, b.path), c.loc())
            if (c.name() or "").startswith("lasso::") and an.tail2(c.callee) in ("Rodeo::clear", "Rodeo::into_reader", "Rodeo::into_resolver", "Rodeo::set_memory_limits"):
                r.violate("%s|%s" % (b.root, t2), "%s frees or freezes the interner (%s): InternedString::resolve_ref hands out references into it" % (b.path, t2), c.loc())
    r.floor("from_utf8_unchecked sites", n, 2)
    r.floor("user unsafe blocks", len(blocks), 3)
    return r


def rule_c(ctx):
    r = RuleResult("C05-c", "@charset/BOM is emitted exactly when the output is non-ASCII and charset output is allowed")
    prog = ctx.prog()
    b = prog.one("Serializer::finish")
    anyc = [c for c in b.calls() if an.tail2(c.callee) == "Iterator::any"]
    if len(anyc) != 1:
        raise AnchorMissing("Serializer::finish: expected one `any(!is_ascii)` scan, found %d" % len(anyc))
    anyc = anyc[0]
    src = _chain(b, an.trace_operand(b, anyc.args[0], through_calls=False))
    if "buffer" not in src:
        r.violate("finish|scan-source", "the non-ASCII scan in Serializer::finish does not inspect the output buffer (%s)" % src, anyc.loc())
    else:
        r.ok("finish|scan-source")
    # the closure tests !is_ascii
    cl = [x for x in prog.closures_of(b)]
    okc = any(any(an.tail2(c.callee) in ("u8::is_ascii", "char::is_ascii") for c in x.calls()) for x in cl)
    if okc:
        r.ok("finish|scan-predicate")
    else:
        r.violate("finish|scan-predicate", "the scan closure in Serializer::finish does not call is_ascii", b.loc())

    def classify(kind, obj, body, sw):
        if kind == "call" and obj.bb == anyc.bb:
            return psa.Pred(("NONASCII",), []), False
        if kind == "call" and (obj.name() or "").endswith("Options::is_compressed"):
            return psa.Pred(("COMPRESSED",), []), False
        if kind == "place" and obj.proj and obj.proj[-1] == "allows_charset":
            return psa.Pred(("ALLOWS",), []), False
        return None

    ins = [c for c in b.calls() if an.tail2(c.callee) in ("String::insert", "String::insert_str")]
    if len(ins) != 2:
        r.violate("finish|insertions", "Serializer::finish performs %d prefix insertions, expected BOM and @charset" % len(ins), b.loc())
    for c in ins:
        what = an.trace_operand(b, c.args[2])
        pos = an.trace_operand(b, c.args[1])
        vals, complete = psa.valuations_at(b, c.bb, classify)
        t2 = an.tail2(c.callee)
        is_bom = t2 == "String::insert"
        key = "finish|%s" % ("BOM" if is_bom else "@charset")
        if not (pos.root[0] == "const" and str(pos.root[1]) == "0"):
            r.violate(key + "|position", "the prefix is inserted at %r, not at offset 0" % (pos,), c.loc())
        if is_bom:
            if what.root[0] != "const" or what.root[1] != "﻿":
                r.violate(key + "|text", "expected U+FEFF, found %r" % (what,), c.loc())
            need = lambda v: v.get(("NONASCII",)) is True and v.get(("ALLOWS",)) is True and v.get(("COMPRESSED",)) is True
        else:
            if what.root[0] != "const" or what.root[1] != '@charset "UTF-8";\n':
                r.violate(key + "|text", "expected `@charset \"UTF-8\";\\n`, found %r" % (what,), c.loc())
            need = lambda v: v.get(("NONASCII",)) is True and v.get(("ALLOWS",)) is True and v.get(("COMPRESSED",)) is not True
        if complete and vals and all(need(v) for v in vals):
            r.ok(key + "|guard")
        else:
            r.violate(key + "|guard", "%s is inserted on a path where (non-ASCII output, allows_charset%s) is not established: %s" % ("the BOM" if is_bom else "@charset", ", compressed" if is_bom else ", expanded", [dict((k[0], x) for k, x in v.items()) for v in vals][:2]), c.loc())
    # no prefix is a decision too: returning without insertion requires !(NONASCII && ALLOWS)
    for e in b.exits():
        vals, complete = psa.valuations_at(b, e, classify, avoid={c.bb for c in ins})
        bad = [v for v in vals if v.get(("NONASCII",)) is True and v.get(("ALLOWS",)) is True]
        if complete and not bad:
            r.ok("finish|no-prefix-only-when-ascii-or-disallowed")
        else:
            r.violate("finish|no-prefix", "Serializer::finish can return non-ASCII output without @charset/BOM although charset output is allowed", b.loc())
    # everything appended after the scan is ASCII (checked by C05-a for constants); the scan precedes all later writes
    for c in b.calls():
        if an.tail2(c.callee) in ("Vec::push", "Vec::extend_from_slice") or (c.name() or "").endswith("write_optional_newline"):
            if not b.dominates(anyc.bb, c.bb):
                r.violate("finish|scan-before-write", "Serializer::finish writes to the buffer before scanning it for non-ASCII bytes", c.loc())
    # allows_charset has no other reader
    readers = set()
    for body in prog.bodies.values():
        if body.crate != "grass_compiler":
            continue
        for bb in range(len(body.blocks)):
            for s in body.stmts(bb):
                if s["k"] != "assign":
                    continue
                for pl in common._places_in_rv(s["rv"]):
                    if any(e["k"] == "field" and e.get("n") == "allows_charset" for e in pl.proj):
                        readers.add(body.root)
            t = body.term(bb)
            if t["k"] == "switch":
                o = Operand(t["d"])
                if o.place is not None and any(e["k"] == "field" and e.get("n") == "allows_charset" for e in o.place.proj):
                    readers.add(body.root)
    for rd in sorted(readers):
        if rd.endswith("Serializer::finish") or rd.endswith("Options::allows_charset") or "Debug" in rd or "Clone" in rd:
            r.ok("allows_charset|reader|%s" % rd)
        else:
            r.violate("allows_charset|reader|%s" % rd, "Options.allows_charset is read in %s; the charset decision must be made in Serializer::finish only" % rd)
    return r


def rule_d(ctx):
    r = RuleResult("C05-d", "invisible nodes (placeholder selectors, empty rules) are filtered consistently before anything is written")
    prog = ctx.prog()
    # complex selectors are only written through the filtered list
    wcs = prog.one("Serializer::write_complex_selector")
    callers = set()
    for b in prog.bodies.values():
        for c in b.calls():
            if c.name() == wcs.path:
                callers.add(b.root)
    for c in sorted(callers):
        if c.endswith("Serializer::write_selector_list"):
            r.ok("write_complex_selector|caller|%s" % c)
        else:
            r.violate("write_complex_selector|caller|%s" % c, "write_complex_selector is called from %s, bypassing the invisibility filter of write_selector_list" % c)
    wsl = prog.one("Serializer::write_selector_list")
    filt = [c for c in wsl.calls() if an.tail2(c.callee) == "Iterator::filter"]
    ok = False
    for f in filt:
        for cl in prog.closures_of(wsl):
            calls = [x for x in cl.calls() if (x.name() or "").endswith("ComplexSelector::is_invisible")]
            if calls:
                # closure returns the negation of is_invisible
                neg = any(rv["k"] == "unop" and rv["op"] == "Not" for _, _, pl, rv, _ in cl.assignments())
                if neg:
                    ok = True
    loop_src = [c for c in wsl.calls() if an.tail2(c.callee) == "Iterator::next"]
    fed = any("filter" in repr(an.trace_operand(wsl, c.args[0])) or "Filter" in wsl.local_ty(c.args[0].place.local) for c in loop_src if c.args and c.args[0].place is not None)
    if ok and fed:
        r.ok("write_selector_list|filter-!is_invisible")
    else:
        r.violate("write_selector_list|filter", "write_selector_list does not iterate `components.filter(|c| !c.is_invisible())`", wsl.loc())
    # statement level: Serializer::visit_stmt and the top-level loop in lib.rs
    vs = prog.one("Serializer::visit_stmt")
    inv = [c for c in vs.calls() if (c.name() or "").endswith("CssStmt::is_invisible")]
    if not inv:
        r.violate("visit_stmt|is_invisible", "Serializer::visit_stmt no longer tests CssStmt::is_invisible", vs.loc())
    else:
        n = 0
        for c in vs.calls():
            if c.bb == inv[0].bb or not (c.name() or "").startswith(SER):
                continue
            n += 1
            facts_at = an.bool_guard_calls(vs, c.bb)
            if any(kind == "call" and obj.bb == inv[0].bb and truth is False for kind, obj, truth, d in facts_at):
                pass
            else:
                r.violate("visit_stmt|%s" % c.name().rsplit("::", 1)[-1], "Serializer::visit_stmt reaches %s without having excluded invisible statements" % c.name(), c.loc())
        r.ok("visit_stmt|all-writers-after-visibility-test", writers=n)
    top = prog.one("grass_compiler::from_string_with_file_name")
    vg = [c for c in top.calls() if (c.name() or "").endswith("Serializer::visit_group")]
    for c in vg:
        facts_at = an.bool_guard_calls(top, c.bb)
        if any(kind == "call" and (obj.name() or "").endswith("CssStmt::is_invisible") and truth is False for kind, obj, truth, d in facts_at):
            r.ok("from_string_with_file_name|visit_group-after-visibility-test")
        else:
            r.violate("from_string_with_file_name|visit_group", "the top-level serializer loop emits statements without testing is_invisible", c.loc())
    if not vg:
        raise AnchorMissing("top-level loop no longer calls visit_group")
    # placeholders are invisible
    si = prog.one("selector::simple::SimpleSelector::is_invisible")
    tab, adt = common.variant_ret_table(si)
    if tab and tab.get("Placeholder") is True:
        r.ok("SimpleSelector::is_invisible|Placeholder")
    else:
        r.violate("SimpleSelector::is_invisible|Placeholder", "SimpleSelector::is_invisible does not return true for placeholder selectors (%s)" % (tab.get("Placeholder") if tab else None), si.loc())
    return r


def rule_e(ctx):
    r = RuleResult("C05-e", "quoted strings: a hexadecimal escape is followed by a separating space whenever the next byte would otherwise be read as part of it "
                   "(hex digit, space or tab — CSS Syntax 3 §4.3.7), and exactly the C0 controls other than tab are escaped")
    prog = ctx.prog()
    b = prog.one("serializer::Serializer::visit_quoted_string")
    pushes = []
    for c in b.calls():
        if an.tail2(c.callee) == "Vec::push" and len(c.args) == 2:
            v = an.trace_operand(b, c.args[1])
            if v.root[0] == "const" and str(v.root[1]) == "32":
                pushes.append(c)
    if len(pushes) != 1:
        raise AnchorMissing("visit_quoted_string: expected one push of b' ' after a hex escape, found %d" % len(pushes))
    P = pushes[0].bb

    def leads_to(x, seen=None):
        """x reaches P through goto-only blocks."""
        seen = seen or set()
        while x not in seen:
            seen.add(x)
            if x == P:
                return True
            t = b.term(x)
            if t["k"] == "goto" and not any(s_["k"] == "assign" and s_["p"]["l"] != 0 and False for s_ in b.stmts(x)):
                x = t["t"]
                continue
            return False
        return False

    found = set()
    peeked = None
    for bb in range(len(b.blocks)):
        t = b.term(bb)
        if t["k"] != "switch" or t["dty"] != "bool" or bb in b._const_switch:
            continue
        for kind, obj, pol in an.cond_sources(b, Operand(t["d"])):
            tgt = common.bool_edge(b, bb, pol)
            if not leads_to(tgt):
                continue
            if kind == "call" and (obj.callee or "").endswith("is_ascii_hexdigit"):
                src = an.trace_operand(b, obj.args[0])
                if src.root[0] == "call" and an.tail2(src.root[1]) == "Peekable::peek":
                    found.add("hexdigit")
                    peeked = src
            if kind == "binop" and obj[0] == "Eq":
                for x, y in ((obj[1], obj[2]), (obj[2], obj[1])):
                    if y.const is not None and x.place is not None:
                        src = an.trace_operand(b, x)
                        if src.root[0] == "call" and an.tail2(src.root[1]) == "Peekable::peek":
                            try:
                                found.add(int(y.const_value()))
                            except (TypeError, ValueError):
                                pass
    need = {"hexdigit": "a hexadecimal digit", 32: "a space", 9: "a tab"}
    for k, what in need.items():
        key = "visit_quoted_string|escape-terminated-before|%s" % k
        if k in found:
            r.ok(key)
        else:
            r.violate(key, "visit_quoted_string does not insert the separating space after a hex escape when the next byte is %s: the CSS reader then takes that byte "
                      "as part of the escape and the string changes on re-parse" % what, pushes[0].loc())
    extra = found - set(need)
    if extra:
        r.note("additional terminators (harmless): %s" % sorted(map(str, extra)))
    # which source bytes take the escaping arm?  Evaluate the decision blocks on the byte `c` for all 256 values.
    nxt = [c for c in b.calls() if an.tail2(c.callee) == "Iterator::next"]
    start = None
    for bb in range(len(b.blocks)):
        t = b.term(bb)
        if t["k"] == "switch" and t["dty"] == "u8":
            src = an.trace_operand(b, Operand(t["d"]))
            if src.root[0] == "call" and an.tail2(src.root[1]) == "Iterator::next":
                start, cvar = bb, src
    if start is None:
        raise AnchorMissing("visit_quoted_string: no match on the current byte")

    def arm_of(v):
        x = start
        for _ in range(64):
            t = b.term(x)
            if t["k"] == "goto" and not b.stmts(x):
                x = t["t"]
                continue
            if t["k"] != "switch":
                return x
            if t["dty"] == "u8":
                if an.trace_operand(b, Operand(t["d"])) != cvar:
                    return x
                x = next((tb for val, tb in t["ts"] if int(val) == v), t["else"])
                continue
            res = None
            for kind, obj, pol in an.cond_sources(b, Operand(t["d"])):
                if kind == "binop" and obj[0] in ("Le", "Lt", "Ge", "Gt", "Eq", "Ne"):
                    vals = []
                    for o in (obj[1], obj[2]):
                        if o.const is not None:
                            vals.append(int(o.const_value()))
                        elif an.trace_operand(b, o) == cvar:
                            vals.append(v)
                        else:
                            vals.append(None)
                    if None in vals:
                        return x
                    a_, b_ = vals
                    truth = {"Le": a_ <= b_, "Lt": a_ < b_, "Ge": a_ >= b_, "Gt": a_ > b_, "Eq": a_ == b_, "Ne": a_ != b_}[obj[0]]
                    res = common.bool_edge(b, x, truth == pol)
            if res is None:
                return x
            x = res
        return x

    loop_heads = {c.bb for c in nxt}
    escaped = set()
    for v in range(256):
        a0 = arm_of(v)
        if a0 == P or an.reach_avoiding(b, a0, loop_heads, {P}) is not None:
            escaped.add(v)
    must = set(range(0, 9)) | set(range(10, 32))
    mustnot = {9} | set(range(32, 127)) | set(range(128, 256))
    if must <= escaped and not (escaped & mustnot):
        r.ok("visit_quoted_string|escaped-byte-set", escaped="%d bytes: 0x00-0x08, 0x0A-0x1F%s" % (len(escaped), ", 0x7F" if 127 in escaped else ""))
    else:
        r.violate("visit_quoted_string|escaped-byte-set", "visit_quoted_string escapes the bytes %s; the C0 controls 0x00-0x08 and 0x0A-0x1F must be escaped (missing: %s) and "
                  "tab, printable ASCII and bytes >= 0x80 must not (wrongly escaped: %s)" % (sorted(escaped)[:40], sorted(must - escaped), sorted(escaped & mustnot)[:20]), b.loc())
    return r


def rule_f(ctx):
    r = RuleResult("C05-f", "attribute values are written without quotes only if is_ident() accepts them, and is_ident() lets a value start only with a name-start "
                   "character that is not a digit (a lone `-` or `-1` must stay quoted, otherwise the output does not re-parse)")
    from .. import psa
    from . import loops as _loops
    prog = ctx.prog()
    b = prog.one("utils::strings::is_ident")
    nexts = [c for c in b.calls() if an.tail2(c.callee) == "Iterator::next"]
    order = {bb: i for i, bb in enumerate(b.rpo())}
    nexts.sort(key=lambda c: order.get(c.bb, 1 << 30))
    nl = _loops.natural_loops(b)
    in_loop = set().union(*nl.values()) if nl else set()
    first = [c for c in nexts if c.bb not in in_loop]
    later = [c for c in nexts if c.bb in in_loop]
    if len(first) != 1 or not later:
        raise AnchorMissing("is_ident: expected one chars.next() before the loop and at least one inside it")
    fc = first[0]

    def is_first(ap):
        return ap.root[0] == "call" and ap.root[2] == fc.bb and "as:Some" in ap.proj

    def classify(kind, obj, body, sw):
        if kind == "call" and obj.args:
            a = an.trace_operand(body, obj.args[0])
            nm = obj.name() or obj.callee or ""
            if is_first(a):
                if nm.endswith("::is_name_start"):
                    return psa.Pred(("NAME_START",), []), False
                if nm.endswith("char::methods::<impl char>::is_numeric") or nm.endswith("is_ascii_digit"):
                    return psa.Pred(("NUMERIC",), []), False
        return None

    loop_head = sorted(nl)[0] if nl else later[0].bb
    # the first block of the scanning loop: how can control get there?
    target = min((h for h in nl), key=lambda h: order.get(h, 1 << 30))
    vals, complete = psa.valuations_at(b, target, classify)
    key = "is_ident|first-character"
    bad = [v for v in vals if not (v.get(("NAME_START",)) is True and v.get(("NUMERIC",)) is False)]
    if complete and vals and not bad:
        r.ok(key, valuations=len(vals))
    else:
        r.violate(key, "is_ident() reaches its scanning loop for a first character that has not been shown to be a non-digit name-start character (facts on such a path: %s): "
                  "values such as `-` or `-1` are then written unquoted in attribute selectors, which is not valid CSS" % (bad[:1] or "analysis incomplete"), b.loc())
    # the writer consults is_ident before writing the raw value
    w = [x for k, x in prog.bodies.items() if k.startswith("<grass_compiler::selector::attribute::Attribute as std::fmt::Display>::fmt")]
    if len(w) != 1:
        raise AnchorMissing("Display for Attribute not found")
    w = w[0]
    idc = [c for c in w.calls() if (c.name() or "").endswith("utils::strings::is_ident")]
    raw = [c for c in w.calls() if an.tail2(c.callee) in ("Write::write_str", "Formatter::write_str") and an.trace_operand(w, c.args[1]).proj[-1:] == ("value",)]
    okw = bool(idc) and bool(raw)
    for c in raw:
        g = False
        for sw, pol in common.switches_on_call(w, idc[0]) if idc else []:
            if an.edge_dominates(w, (sw, common.bool_edge(w, sw, pol)), c.bb):
                g = True
        okw = okw and g
    if okw:
        r.ok("Attribute::fmt|raw-value-only-under-is_ident", raw_writes=len(raw))
    else:
        r.violate("Attribute::fmt|raw-value-only-under-is_ident", "the attribute selector writer emits the raw value without having tested is_ident() (is_ident calls: %d, raw writes: %d)" % (len(idc), len(raw)), w.loc())
    return r


def rule_g(ctx):
    r = RuleResult("C05-g", "indented syntax: a loud comment gets a closing `*/` appended only if the text, ignoring trailing whitespace, does not already end with one "
                   "(otherwise the output has two closers for one opener)")
    prog = ctx.prog()
    bs = [x for k, x in prog.bodies.items() if k.endswith("StylesheetParser>::parse_loud_comment") and "sass::SassParser" in k]
    if len(bs) != 1:
        raise AnchorMissing("SassParser::parse_loud_comment not found")
    b = bs[0]
    ew = []
    for c in b.calls():
        if an.tail2(c.callee) == "str::ends_with" and len(c.args) >= 2:
            pat = an.trace_operand(b, c.args[1])
            if pat.root[0] == "const" and "*/" in str(pat.root[1]):
                ew.append(c)
    if len(ew) != 1:
        raise AnchorMissing("parse_loud_comment: expected one ends_with(\"*/\") test, found %d" % len(ew))
    recv = an.trace_operand(b, ew[0].args[0], through_calls=False)
    trimmed = recv.root[0] == "call" and an.tail2(recv.root[1]) in ("str::trim_end", "str::trim", "str::trim_end_matches")
    if trimmed:
        r.ok("parse_loud_comment|closer-test-ignores-trailing-whitespace")
    else:
        r.violate("parse_loud_comment|closer-test-ignores-trailing-whitespace", "the `ends_with(\"*/\")` test of the indented-syntax loud comment is applied to untrimmed text (%r): "
                  "`/* c */` followed by spaces gets a second ` */`, which does not re-parse as CSS" % (recv,), ew[0].loc())
    return r



def rule_h(ctx):
    r = RuleResult("C05-h", "@supports conditions: a negation nested under and/or/not is written in parentheses (`a and not b` is not a valid <supports-condition>): "
                   "parenthesize_supports_condition has an arm for Negation that wraps the text in `(` `)`")
    prog = ctx.prog()
    b = prog.one("evaluate::visitor::Visitor::parenthesize_supports_condition")
    found = None
    for sw, ap, adt, variants, rv in common.discr_switches(b):
        if (adt or "").endswith("AstSupportsCondition") and ap.root == ("arg", 2):
            t = b.term(sw)
            found = ({variants.get(v): tb for v, tb in t["ts"]}, t["else"])
    if found is None:
        raise AnchorMissing("parenthesize_supports_condition: no match on the condition kind")
    arms, els = found
    key = "parenthesize_supports_condition|negation-wrapped"
    ok = False
    if "Negation" in arms and arms["Negation"] != els:
        region = common.reach_from(b, arms["Negation"]) - common.reach_from(b, els)
        for c in b.calls():
            if c.bb in region | {arms["Negation"]} and (c.callee or "").endswith("fmt::Arguments::new"):
                bs = None
                from .c07 import _template_bytes, fmt_placeholders
                bs = _template_bytes(b, c.args[0])
                if bs is not None:
                    ph, lit = fmt_placeholders(bs)
                    if lit == "()" and len(ph) == 1:
                        ok = True
    if ok:
        r.ok(key)
    else:
        r.violate(key, "parenthesize_supports_condition no longer wraps a nested negation in parentheses: `(a) and (not (b))` is emitted as `(a) and not (b)`, which neither "
                  "browsers nor grass itself accept", b.loc())
    return r


RULES = [rule_a, rule_b, rule_c, rule_d, rule_e, rule_f, rule_g, rule_h]
