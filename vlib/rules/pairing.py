"""P3 — pairing / save-restore on non-Err paths.

Discovers, per function body, the state that is temporarily overwritten and later restored:
  * context flags:  `let old = flags.in_x(); flags.set(X, v); ...; flags.set(X, old)`
  * fields:         `let old = self.f (copy / take() / replace / clone); self.f = v; ...; self.f = old`
  * swap pairs:     `mem::swap(&mut self.f, &mut tmp); ...; mem::swap(&mut self.f, &mut tmp)`
  * call pairs:     enter_new_scope / exit_scope, active_modules.insert / remove
and checks that after every *open* event each CFG path to a normal (non-Err) return passes a
matching *close* event."""
from ..facts import Operand, Place, Call
from .. import an
from . import common

FLAGS_T = "grass_compiler::context_flags::ContextFlags"


def flag_getters(prog):
    """getter fn path -> flag const name (derived from the getter bodies)."""
    out = {}
    for p, b in prog.bodies.items():
        if p.startswith(FLAGS_T + "::") and b.argc == 1 and b.local_ty(0) == "bool":
            consts = set()
            for bb, i, pl, rv, s in b.assignments():
                for o in common.rv_operands(rv) if hasattr(common, "rv_operands") else []:
                    pass
            for bb in range(len(b.blocks)):
                for s in b.stmts(bb):
                    if s["k"] == "assign":
                        _collect_flag_consts(s["rv"], consts)
                t = b.term(bb)
                if t["k"] == "call":
                    for a in t["args"]:
                        c = a.get("c") or {}
                        if "uneval" in c and c["uneval"].startswith(FLAGS_T + "::"):
                            consts.add(c["uneval"].rsplit("::", 1)[-1])
            if len(consts) == 1:
                out[p] = next(iter(consts))
    return out


def _collect_flag_consts(rv, out):
    for k in ("op", "a", "b"):
        v = rv.get(k)
        if isinstance(v, dict) and v.get("k") == "const":
            c = v.get("c", {})
            if "uneval" in c and c["uneval"].startswith(FLAGS_T + "::"):
                out.add(c["uneval"].rsplit("::", 1)[-1])
    for v in rv.get("ops", []):
        if v.get("k") == "const":
            c = v.get("c", {})
            if "uneval" in c and c["uneval"].startswith(FLAGS_T + "::"):
                out.add(c["uneval"].rsplit("::", 1)[-1])


class Event:
    def __init__(self, bb, idx, kind, where):
        self.bb = bb
        self.idx = idx  # statement index or 'term'
        self.kind = kind  # 'open' | 'close' | 'save'
        self.where = where

    def order(self):
        return (self.bb, 10 ** 6 if self.idx == "term" else self.idx)


class Instance:
    def __init__(self, body, slot, desc):
        self.body = body
        self.slot = slot  # e.g. ('flag', 'IN_MIXIN') / ('field', 'parent') / ('swap', 'env') / ('pair', 'scope')
        self.desc = desc
        self.opens = []
        self.closes = []
        self.saves = []

    def key(self):
        return "%s|%s:%s" % (self.body.path, self.slot[0], self.slot[1])


def _flag_name(body, op):
    ap = an.trace_operand(body, op)
    if ap.root[0] == "static" and ap.root[1].startswith(FLAGS_T + "::"):
        return ap.root[1].rsplit("::", 1)[-1]
    c = op.const or {}
    if "uneval" in c and c["uneval"].startswith(FLAGS_T + "::"):
        return c["uneval"].rsplit("::", 1)[-1]
    return None


def discover(prog, body):
    insts = {}
    getters = flag_getters(prog)

    def inst(slot, desc):
        if slot not in insts:
            insts[slot] = Instance(body, slot, desc)
        return insts[slot]

    # --- flags -----------------------------------------------------------------------------
    flag_sets = []
    for c in body.calls():
        if c.name() == FLAGS_T + "::set":
            fl = _flag_name(body, c.args[1])
            if fl is None:
                continue
            v = c.args[2]
            vap = an.trace_operand(body, v, through_calls=False)
            saved = False
            if vap.root[0] == "call" and getters.get(vap.root[1]) == fl:
                saved = True
            flag_sets.append((c, fl, saved, vap))
    for c in body.calls():
        g = getters.get(c.name() or "")
        if g:
            # is the getter result used as a restore value?
            used = any(fl == g and saved and vap.root[2] == c.bb for _, fl, saved, vap in flag_sets)
            if used:
                inst(("flag", g), "context flag %s" % g).saves.append(Event(c.bb, "term", "save", c.loc()))
    for c, fl, saved, vap in flag_sets:
        if ("flag", fl) not in insts:
            continue  # permanent setter, not a temporary override
        i = insts[("flag", fl)]
        (i.closes if saved else i.opens).append(Event(c.bb, "term", "close" if saved else "open", c.loc()))

    # --- fields (direct assignment) -----------------------------------------------------------
    # saves: local L defined from a field place (copy/move), or via take()/replace()/clone() of a field
    saves = {}  # local -> (field key, Event)
    for bb, i, pl, rv, s in body.assignments():
        if pl.proj:
            continue
        src = None
        if rv["k"] == "use" and "p" in rv["op"]:
            sp = Place(rv["op"]["p"])
            fk = _field_key(body, sp)
            if fk:
                src = fk
        if src:
            saves[pl.local] = (src, Event(bb, i, "save", "%s:%d" % (body.file, s["span"]["l"])))
    for c in body.calls():
        t2 = an.tail2(c.callee)
        if t2 in ("Option::take", "mem::take", "mem::replace", "Clone::clone") and c.args and c.dest is not None and not c.dest.proj:
            ap_place = _arg_field_key(body, c.args[0])
            if ap_place:
                saves[c.dest.local] = (ap_place, Event(c.bb, "term", "save", c.loc()))
    writes = []  # (field key, Event, value local or None, via)
    for bb, i, pl, rv, s in body.assignments():
        if not pl.proj:
            continue
        fk = _field_key(body, pl)
        if not fk:
            continue
        vloc = None
        if rv["k"] == "use" and "p" in rv["op"] and not rv["op"]["p"].get("p"):
            vloc = _origin_local(body, rv["op"]["p"]["l"])
        writes.append((fk, Event(bb, i, "w", "%s:%d" % (body.file, s["span"]["l"])), vloc))
    # mem::replace(&mut self.f, new) is a save *and* an open
    for c in body.calls():
        t2 = an.tail2(c.callee)
        if t2 in ("mem::replace", "Option::replace") and c.args:
            fk = _arg_field_key(body, c.args[0])
            if fk:
                writes.append((fk, Event(c.bb, "term", "w", c.loc()), None))
        if t2 in ("Option::take", "mem::take") and c.args:
            fk = _arg_field_key(body, c.args[0])
            if fk:
                writes.append((fk, Event(c.bb, "term", "w", c.loc()), None))
    for fk, ev, vloc in writes:
        restore_of = None
        if vloc is not None and vloc in saves and saves[vloc][0] == fk:
            restore_of = saves[vloc][1]
        if restore_of is not None:
            i = inst(("field", fk), "field %s" % fk)
            i.closes.append(Event(ev.bb, ev.idx, "close", ev.where))
            if restore_of not in i.saves:
                i.saves.append(restore_of)
    for fk, ev, vloc in writes:
        if ("field", fk) in insts:
            i = insts[("field", fk)]
            if not any(c.bb == ev.bb and c.idx == ev.idx for c in i.closes):
                # a write that is itself the save (take/replace) counts as open at that point
                i.opens.append(Event(ev.bb, ev.idx, "open", ev.where))

    # --- swap pairs ------------------------------------------------------------------------------
    swaps = {}
    for c in body.calls():
        if an.tail2(c.callee) == "mem::swap" and len(c.args) == 2:
            fk = _arg_field_key(body, c.args[0]) or _arg_field_key(body, c.args[1])
            if fk:
                swaps.setdefault(fk, []).append(c)
    for fk, cs in swaps.items():
        if len(cs) >= 2:
            order = {b: n for n, b in enumerate(body.rpo())}
            cs.sort(key=lambda c: order.get(c.bb, 1 << 30))
            i = inst(("swap", fk), "swap of %s" % fk)
            i.opens.append(Event(cs[0].bb, "term", "open", cs[0].loc()))
            for c in cs[1:]:
                i.closes.append(Event(c.bb, "term", "close", c.loc()))

    # --- call pairs ------------------------------------------------------------------------------
    PAIRS = [("Environment::enter_new_scope", "Environment::exit_scope", "scope"), ("Scopes::enter_new_scope", "Scopes::exit_scope", "scope")]
    for op, cl, nm in PAIRS:
        os_ = [c for c in body.calls() if (c.name() or "").endswith(op)]
        cs_ = [c for c in body.calls() if (c.name() or "").endswith(cl)]
        if os_ and cs_:
            i = inst(("pair", nm), "%s / %s" % (op, cl))
            i.opens += [Event(c.bb, "term", "open", c.loc()) for c in os_]
            i.closes += [Event(c.bb, "term", "close", c.loc()) for c in cs_]
    ins = [c for c in body.calls() if an.tail2(c.callee) in ("HashSet::insert", "BTreeSet::insert") and "active_modules" in repr(an.trace_operand(body, c.args[0]))]
    rem = [c for c in body.calls() if an.tail2(c.callee) in ("HashSet::remove", "BTreeSet::remove") and "active_modules" in repr(an.trace_operand(body, c.args[0]))]
    if ins and rem:
        i = inst(("pair", "active_modules"), "active_modules.insert / remove")
        i.opens += [Event(c.bb, "term", "open", c.loc()) for c in ins]
        i.closes += [Event(c.bb, "term", "close", c.loc()) for c in rem]
    return list(insts.values())


def _origin_local(body, l, depth=0):
    """Follow plain local-to-local moves backwards."""
    if depth > 6:
        return l
    defs = body.defs_of(l)
    if len(defs) == 1 and isinstance(defs[0][2], dict) and defs[0][2]["k"] == "use" and "p" in defs[0][2]["op"] and not defs[0][2]["op"]["p"].get("p"):
        return _origin_local(body, defs[0][2]["op"]["p"]["l"], depth + 1)
    return l


def _field_key(body, place):
    """'root.field[.field]' for a place that denotes a (nested) struct field reached from an argument/self."""
    names = []
    for e in place.proj:
        if e["k"] == "field":
            names.append(e.get("n", "#%d" % e["i"]))
        elif e["k"] == "deref":
            continue
        else:
            return None
    if not names:
        return None
    base = an.trace_local(body, place.local)
    if base.root[0] not in ("arg",):
        return None
    full = [p for p in base.proj if p != "?"] + names
    # only visitor / parser / environment state
    return ".".join(full)


def _arg_field_key(body, op):
    """Field key of `&mut self.f` passed as an argument."""
    if op.place is None:
        return None
    ap = an.trace_operand(body, op)
    if ap.root[0] != "arg" or not ap.proj:
        return None
    if any(p.startswith("as:") or p in ("[]", "[c]", "?") for p in ap.proj):
        return None
    return ".".join(ap.proj)


def check_instance(body, inst):
    """[(open Event, escaping exit block)] for opens that can reach a normal return without a close."""
    errs = an.err_exit_blocks(body)
    exits = set(body.exits())
    close_blocks = {}
    for c in inst.closes:
        close_blocks.setdefault(c.bb, []).append(c)
    bad = []
    for o in inst.opens:
        # a close later in the same block?
        same = [c for c in close_blocks.get(o.bb, []) if c.order() > o.order()]
        if same:
            continue
        avoid = set(close_blocks) | errs
        if o.bb in exits:
            bad.append((o, o.bb))
            continue
        # an exit block that itself contains the close (statement before `return`) is passed through the close
        hit = an.reach_avoiding(body, o.bb, avoid, exits - set(close_blocks))
        if hit is not None:
            bad.append((o, hit))
    return bad
