"""C19 — diagnostics are located, renderable and routed only through the Logger."""
from ..core import RuleResult
from ..facts import AnchorMissing, Operand, Place
from .. import an, psa
from . import common, errkind

LOGGER = "grass_compiler::logger::Logger::"
API_FNS = ("grass_compiler::from_path", "grass_compiler::from_string", "grass_compiler::parse_stylesheet", "grass_compiler::from_string_js")
STDIO = ("std::io::stdio::_print", "std::io::stdio::_eprint", "std::io::stdio::stdout", "std::io::stdio::stderr",
         "std::io::stdio::print_to", "std::io::stdio::stdout_locked")
LOGGER_CALLERS = {
    "grass_compiler::evaluate::visitor::Visitor::emit_warning": "warn",
    "grass_compiler::evaluate::visitor::Visitor::visit_debug_rule": "debug",
}


def rule_a(ctx):
    r = RuleResult("C19-a", "errors returned by the public entry points are never Raw (kind()/Display cannot hit unreachable!)")
    configs = ["default"] + (["wasm-exports", "no-default"] if ctx.thorough() else [])
    n = 0
    for cfg in configs:
        prog = ctx.prog(cfg)
        ek = errkind.get(prog)
        for f in API_FNS:
            if f not in prog.bodies:
                continue
            n += 1
            kinds = ek.of(f)
            key = "%s|kinds" % f
            bad = {k: w for k, w in kinds.items() if k not in ("Parse", "Io", "Utf8")}
            if not bad:
                r.ok(key, kinds=sorted(kinds), config=cfg)
            for k, chain in sorted(bad.items()):
                r.violate("%s|%s|%s" % (f, k, _origin(chain)), "public entry point %s can return an error of kind %s, which SassError::kind()/Display treat as unreachable!: %s" % (f, k, "  <-  ".join(chain)))
    r.floor("public entry points", n, 3)
    # SassError's kind field stays private and the kinds are only built by the From impls / from_loc
    prog = ctx.prog()
    st = prog.struct("error::SassError")
    for f in st["fields"]:
        if f["pub"]:
            r.violate("SassError|field|%s" % f["name"], "SassError.%s is public: error kinds can be forged outside error.rs" % f["name"])
        else:
            r.ok("SassError|field|%s" % f["name"])
    builders = set()
    for b in prog.bodies.values():
        for bb, i, pl, rv, s in b.assignments():
            if rv["k"] == "agg" and rv.get("adt", "").endswith("error::SassErrorKind"):
                builders.add((b.root, rv.get("variant")))
    for root, var in sorted(builders):
        key = "SassErrorKind::%s|built-in|%s" % (var, root)
        is_from_impl = ("<impl std::convert::From<" in root and root.endswith(" for std::boxed::Box<grass_compiler::error::SassError>>::from")) or root.startswith("<std::boxed::Box<grass_compiler::error::SassError> as std::convert::From<")
        if is_from_impl or root.endswith("SassError::from_loc") or root.endswith("SassError::kind") or "as std::clone::Clone>" in root:
            r.ok(key)
        else:
            r.violate(key, "SassErrorKind::%s is constructed in %s (outside the From impls / from_loc): the kind analysis does not cover it" % (var, root))
    return r


def _origin(chain):
    w = chain[-1]
    if " in " in w and " at " in w:
        return w.rsplit(" in ", 1)[1].rsplit(" at ", 1)[0]
    return w.split(" ")[0]


def rule_b(ctx):
    r = RuleResult("C19-b", "Logger is invoked only from emit_warning/visit_debug_rule, under !quiet, on options.logger; libraries never write to stdout/stderr themselves")
    configs = ["default"] + (["macro", "no-default", "wasm-exports"] if ctx.thorough() else [])
    n_log, n_io = 0, 0
    for cfg in configs:
        prog = ctx.prog(cfg)
        for b in prog.bodies.values():
            for c in b.calls():
                cal = c.callee or ""
                if cal.startswith(LOGGER):
                    m = cal[len(LOGGER):]
                    n_log += 1
                    key = "%s|Logger::%s" % (b.root, m)
                    if b.root.startswith("<") and " as grass_compiler::logger::Logger>" in b.root:
                        r.ok(key, why="Logger implementation delegating")
                        continue
                    if LOGGER_CALLERS.get(b.root) != m:
                        r.violate(key, "Logger::%s is called from %s; diagnostics must go through emit_warning / visit_debug_rule" % (m, b.path), c.loc())
                        continue
                    recv = repr(an.trace_operand(b, c.args[0]))
                    if not recv.endswith("options.logger"):
                        r.violate(key + "|receiver", "Logger::%s in %s is not invoked on the Logger supplied in the options (receiver %s)" % (m, b.path, recv), c.loc())
                        continue

                    def classify(kind, obj, bd, sw):
                        if kind == "place" and obj.proj and obj.proj[-1] == "quiet" and "options" in obj.proj:
                            # `options` is a shared reference (&Options) and `quiet` a plain bool: no call can change it
                            # (the field `options` itself is never reassigned: checked below), so the fact is never killed
                            return psa.Pred(("QUIET",), []), False
                        return None

                    vals, complete = psa.valuations_at(b, c.bb, classify)
                    if complete and vals and all(v.get(("QUIET",)) is False for v in vals):
                        r.ok(key, guard="options.quiet == false on every path")
                    else:
                        r.violate(key + "|quiet", "Logger::%s in %s can be reached without having tested options.quiet == false" % (m, b.path), c.loc())
                name = c.name() or ""
                if name in STDIO or name.startswith("std::io::stdio::"):
                    if b.crate.endswith("#bin"):
                        continue
                    n_io += 1
                    key = "%s|%s" % (b.root, name.rsplit("::", 1)[-1])
                    if b.root in ("<grass_compiler::logger::StdLogger as grass_compiler::logger::Logger>::warn", "<grass_compiler::logger::StdLogger as grass_compiler::logger::Logger>::debug"):
                        if name == "std::io::stdio::_eprint":
                            r.ok(key, why="StdLogger writes to stderr")
                        else:
                            r.violate(key, "StdLogger writes with %s; it must only write to stderr" % name, c.loc())
                    elif b.crate == "include_sass":
                        r.violate(key, "include_sass writes to a standard stream (%s)" % name, c.loc())
                    else:
                        r.violate(key, "library code writes to a standard stream outside StdLogger: %s calls %s" % (b.path, name), c.loc())
    r.floor("Logger call sites", n_log, 2)
    r.floor("stdio call sites in libraries (StdLogger)", n_io, 2)
    # who calls emit_warning
    prog = ctx.prog()
    # the `options` field of Visitor is only set by the constructor (struct literal), never reassigned
    vst = prog.struct("evaluate::visitor::Visitor")
    oty = [f["ty"]["s"] for f in vst["fields"] if f["name"] == "options"]
    if not oty or not oty[0].startswith("&") or oty[0].startswith("&mut"):
        r.violate("Visitor.options|type", "Visitor.options is no longer a shared reference (%s): the quiet test could be invalidated between the test and the Logger call" % oty)
    for b in prog.bodies.values():
        for bb, i, pl, rv, s in b.assignments():
            for e in pl.proj:
                if e["k"] == "field" and e.get("n") == "options" and e.get("adt", "").endswith("evaluate::visitor::Visitor") and e is pl.proj[-1]:
                    r.violate("Visitor.options|write|%s" % b.root, "Visitor.options is reassigned in %s" % b.path, "%s:%d" % (b.file, s["span"]["l"]))
    for b in prog.bodies.values():
        for c in b.calls():
            if (c.name() or "").endswith("Visitor::emit_warning"):
                span = an.trace_operand(b, c.args[2])
                key = "%s|emit_warning|span" % b.root
                if "empty_span" in repr(span):
                    r.violate(key, "%s passes empty_span to emit_warning: the warning is not located at the directive" % b.path, c.loc())
                else:
                    r.ok(key, span=repr(span))
    return r


def rule_c(ctx):
    r = RuleResult("C19-c", "@warn de-duplication key depends on the evaluated message as well as the span")
    prog = ctx.prog()
    b = prog.one("Visitor::visit_warn_rule")
    emits = [c for c in b.calls() if (c.name() or "").endswith("Visitor::emit_warning")]
    if not emits:
        raise AnchorMissing("visit_warn_rule no longer calls emit_warning")
    for e in emits:
        msg = an.trace_operand(b, e.args[1])
        # guards of the emit call
        guards = [(obj, truth) for kind, obj, truth, d in an.bool_guard_calls(b, e.bb) if kind == "call" and an.tail2(obj.callee) in ("HashSet::insert", "HashSet::contains", "HashMap::insert", "BTreeSet::insert")]
        if not guards:
            r.ok("visit_warn_rule|no-dedup", why="every executed @warn is delivered")
            continue
        for g, truth in guards:
            key = "visit_warn_rule|dedup-key"
            keyap = an.trace_operand(b, g.args[1])
            parts = _agg_parts(b, g.args[1])
            deps = [repr(p) for p in parts]
            has_msg = any(_same_value(p, msg) for p in parts)
            if has_msg:
                r.ok(key, key_parts=deps)
            else:
                r.violate(key, "the set that suppresses repeated @warn is keyed on %s, which does not include the evaluated message (%r): distinct messages from one rule are delivered once" % (deps or repr(keyap), msg), g.loc())
    # the message itself must be the evaluated expression of the rule
    for e in emits:
        msg = an.trace_operand(b, e.args[1])
        if msg.root[0] == "call" and "to_css_string" in msg.root[1]:
            r.ok("visit_warn_rule|message-is-evaluated-value")
        else:
            r.violate("visit_warn_rule|message", "emit_warning in visit_warn_rule is not passed the serialized value of the rule's expression (%r)" % msg, e.loc())
    return r


def _same_value(p, msg):
    if p == msg:
        return True
    return p.root == msg.root


def _agg_parts(body, op):
    """Access paths of the components of a tuple/struct operand (or the operand itself)."""
    if op.place is None:
        return [an.trace_operand(body, op)]
    l = op.place.local
    defs = body.defs_of(l)
    # tuple built by field assignment or aggregate
    parts = []
    for b, i, d in defs:
        if isinstance(d, dict) and d["k"] == "agg":
            for o in d.get("ops", []):
                parts.append(an.trace_operand(body, Operand(o)))
        elif isinstance(d, dict) and d["k"] == "use":
            return _agg_parts(body, Operand(d["op"]))
    if parts:
        return parts
    return [an.trace_operand(body, op)]


def rule_d(ctx):
    r = RuleResult("C19-d", "every renderable error kind prints `Error: ` first; caret width cannot underflow")
    prog = ctx.prog()
    b = prog.one("<grass_compiler::error::SassError as std::fmt::Display>::fmt")
    found = None
    for sw, ap, adt, variants, rv in common.discr_switches(b):
        if (adt or "").endswith("SassErrorKind"):
            found = (sw, variants)
            break
    if not found:
        raise AnchorMissing("Display for SassError does not match on the error kind")
    sw, variants = found
    arms = common.switch_arms(b, sw, variants)
    order = {bb: i for i, bb in enumerate(b.rpo())}
    n = 0
    for var in ("ParseError", "IoError", "FromUtf8Error"):
        tb = arms.get(var)
        if tb is None:
            r.violate("Display|%s|arm" % var, "Display for SassError has no arm for %s" % var)
            continue
        reach = common.reach_from(b, tb)
        tmpl = []
        for c in b.calls():
            if c.bb in reach and c.name() in ("std::fmt::Arguments::new", "std::fmt::Arguments::from_str", "std::fmt::Arguments::new_const"):
                v = an.trace_operand(b, c.args[0])
                if v.root[0] == "const":
                    tmpl.append((order.get(c.bb, 1 << 30), v.root[1], c))
        tmpl.sort(key=lambda x: x[0])
        # skip format! calls that only build strings (their result feeds std::fmt::format)
        first = None
        for _, t, c in tmpl:
            consumer = [c2 for c2 in b.calls() if any(an.trace_operand(b, a, through_calls=False).root == ("call", c.name(), c.bb) for a in c2.args)]
            if any(an.tail2(c2.callee) in ("Formatter::write_fmt", "Write::write_fmt") for c2 in consumer):
                first = (t, c)
                break
        n += 1
        key = "Display|%s|prefix" % var
        if first and isinstance(first[0], str) and first[0].startswith("Error: "):
            r.ok(key, template=first[0])
        else:
            r.violate(key, "the first text written for SassErrorKind::%s is %r, expected it to start with `Error: `" % (var, first[0] if first else None), first[1].loc() if first else b.loc())
    r.floor("renderable kinds", n, 3)
    # caret width: `max(a, b) - min(a, b)`
    subs = 0
    for bb, i, pl, rv, s in b.assignments():
        if rv["k"] == "binop" and rv["op"].startswith("Sub"):
            a = an.trace_operand(b, Operand(rv["a"]))
            c = an.trace_operand(b, Operand(rv["b"]))
            if "column" in repr(a) or "column" in repr(c) or (a.root[0] == "call" and "max" in a.root[1]):
                subs += 1
                key = "Display|caret-width"
                if a.root[0] == "call" and an.tail2(a.root[1]) == "Ord::max" and c.root[0] == "call" and an.tail2(c.root[1]) == "Ord::min":
                    r.ok(key, expr="max(..) - min(..)")
                else:
                    r.violate(key, "caret width is computed as %r - %r on usize columns: may underflow for multi-line spans" % (a, c), "%s:%d" % (b.file, s["span"]["l"]))
    r.floor("caret width subtraction", subs, 1)
    return r


def rule_e(ctx):
    r = RuleResult("C19-e", "the location given to the Logger is the directive's own span")
    prog = ctx.prog()
    for fn, meth in (("Visitor::visit_debug_rule", "debug"), ("Visitor::emit_warning", "warn")):
        b = prog.one(fn)
        for c in b.calls():
            if (c.callee or "") == LOGGER + meth:
                loc = an.trace_operand(b, c.args[1])
                key = "%s|loc" % fn
                if loc.root[0] == "call" and loc.root[1].endswith("look_up_span"):
                    lc = b.call_at(loc.root[2])
                    sp = an.trace_operand(b, lc.args[1])
                    if sp.root[0] == "arg" and "empty_span" not in repr(sp):
                        r.ok(key, span=repr(sp))
                    else:
                        r.violate(key, "%s looks up %r instead of the directive's span" % (fn, sp), c.loc())
                else:
                    r.violate(key, "%s passes a location not obtained from look_up_span(<directive span>) (%r)" % (fn, loc), c.loc())
    w = prog.one("Visitor::visit_warn_rule")
    for c in w.calls():
        if (c.name() or "").endswith("Visitor::emit_warning"):
            sp = an.trace_operand(w, c.args[2])
            key = "visit_warn_rule|span"
            if repr(sp).endswith("arg2.span"):
                r.ok(key)
            else:
                r.violate(key, "visit_warn_rule reports the warning at %r instead of warn_rule.span" % sp, c.loc())
    return r


RULES = [rule_a, rule_b, rule_c, rule_d, rule_e]
