"""C02 — a result is a pure function of source, options and visible files.
Every source of non-determinism a program of this shape can have is enumerated and confined."""
from ..core import RuleResult
from ..facts import AnchorMissing, Operand, Place, norm
from .. import an
from . import common

ITER_METHODS = ("iter", "keys", "values", "into_iter", "drain", "iter_mut", "values_mut", "into_keys", "into_values")
ORDERED_ONLY = ("first", "last", "first_key_value", "last_key_value", "pop_first", "pop_last", "range", "first_entry", "last_entry")
ADAPTORS = {"Iterator::copied", "Iterator::cloned", "Iterator::map", "Iterator::filter", "Iterator::filter_map", "Iterator::flat_map",
            "Iterator::chain", "Iterator::enumerate", "Iterator::peekable", "Iterator::skip", "Iterator::take", "IntoIterator::into_iter",
            "Iterator::by_ref", "Iterator::zip", "Iterator::inspect", "Iterator::flatten", "Iterator::rev", "Iterator::skip_while",
            "Iterator::take_while", "Iterator::fuse", "[T]::iter", "Vec::iter", "[T]::into_iter", "Vec::as_slice", "Deref::deref"}
INSENSITIVE = {"Iterator::any", "Iterator::all", "Iterator::count", "Iterator::sum", "Iterator::product", "Iterator::min", "Iterator::max",
               "Iterator::min_by_key", "Iterator::max_by_key", "[T]::contains", "Vec::contains", "Vec::is_empty", "Vec::len", "[T]::len",
               "[T]::is_empty"}
UNORDERED_TARGETS = ("std::collections::hash::set::HashSet", "std::collections::hash::map::HashMap", "std::collections::btree::set::BTreeSet",
                     "std::collections::btree::map::BTreeMap")
# loop bodies that may run in any order: only these calls (plus accessors) may appear
COMMUTATIVE_CALLS = {"BTreeMap::remove", "BTreeMap::insert", "BTreeSet::insert", "BTreeSet::remove", "HashMap::insert", "HashMap::remove",
                     "HashSet::insert", "HashSet::remove", "HashSet::contains", "BTreeMap::contains_key", "HashMap::contains_key", "HashMap::entry",
                     "Entry::or_insert_with", "Entry::or_default", "Entry::or_insert", "RefCell::borrow_mut", "RefCell::borrow", "[T]::last_mut",
                     "Option::unwrap", "DerefMut::deref_mut", "Deref::deref", "Clone::clone", "Drop::drop", "IndexMap::extend", "Extend::extend",
                     "Iterator::next", "IntoIterator::into_iter", "Vec::last_mut", "Arc::clone", "Rc::clone", "mem::drop", "Option::as_ref",
                     "Option::as_mut", "Option::is_some", "Option::is_none", "PartialEq::eq", "PartialEq::ne", "BTreeMap::get", "HashMap::get",
                     "HashMap::get_mut", "BTreeMap::get_mut", "Identifier::as_str", "str::starts_with"}
# loops over unordered collections whose bodies are not in the allow-list, reviewed by hand (function -> reason)
REVIEWED_LOOPS = {
    "grass_compiler::selector::extend::ExtensionStore::extend_existing_selectors":
        "each iteration rewrites the iterated selector in place (set_inner) and registers it in hash collections; iterations do not read each other's results",
    "grass_compiler::selector::extend::map_add_all_2":
        "each (key, inner) pair updates destination[key] only; per-key IndexMap order comes from `inner` (an IndexMap), not from the hash order",
}
# instances (by key) whose consumer is order-insensitive for a reason the classifier cannot see, one line each
REVIEWED_SITES = {
    "grass_compiler::ast::args::ArgumentDeclaration::verify|BTreeSet::iter(collect())":
        "`unknown_names.iter().next()` is taken only under `unknown_names.len() == 1`: a one-element set has one order",
    "grass_compiler::evaluate::visitor::Visitor::visit_forward_rule|uses MapView::keys":
        "names are collected into `to_remove` and each is removed from the configuration: a set operation, order-free",
    "grass_compiler::evaluate::visitor::Visitor::remove_used_configuration|uses MapView::keys":
        "`downstream_keys` is only queried with contains()",
    "grass_compiler::evaluate::visitor::Visitor::remove_used_configuration|uses MapView::keys#1":
        "names are collected into `names_to_remove` and each is removed: a set operation, order-free",
    "grass_compiler::evaluate::env::Environment::to_implicit_configuration|BTreeMap::iter(next().as:Some.0)":
        "every (name, value) is inserted into a BTreeMap; precedence between scopes comes from the Vec of scopes, not from key order",
    "grass_compiler::evaluate::visitor::Visitor::eval_args|IntoIterator::into_iter(keywords())":
        "each keyword is inserted into the `named` BTreeMap after the pure without_slash(): order-free",
}


UNDECIDED_SITES = {
    ("C02-a", "grass_compiler::ast::stmt::Configuration::first|uses MapView::keys"):
        "Configuration.values can be a HashSet-backed LimitedMapView (configuration passed through `@forward .. show/hide`), so which "
        "unused variable `first()` reports could vary per process; no input found where that error is not raised earlier on an ordered view "
        "(the Identifier-order variant of the same site is a known finding of C02-b)",
}


def _recv_head(body, call):
    """Outermost ADT of the receiver (after references) and its type arguments."""
    if not call.args or call.args[0].place is None:
        return None, []
    l = call.args[0].place.local
    t = body.locals[l]
    if call.args[0].place.proj:
        # projected place: use the callee path instead
        return None, []
    return t.get("adt"), t.get("args", [])


def ordered_sources(prog):
    """Call sites that start an iteration whose order is not a function of the source text:
    ('hash', call) for HashMap/HashSet (and newtypes around them); ('intern', call) for BTree*<Identifier>."""
    out = []
    for b in prog.bodies.values():
        if b.crate != "grass_compiler":
            continue
        for c in b.calls():
            n = c.name() or ""
            last = n.rsplit("::", 1)[-1]
            if last not in ITER_METHODS and last not in ORDERED_ONLY:
                continue
            t2 = an.tail2(c.callee)
            head, targs = _recv_head(b, c)
            tyargs = " ".join(c.fn_args + c.res_args)
            kind = None
            if t2.startswith("HashMap::") or t2.startswith("HashSet::") or (head or "").endswith(("hash::map::HashMap", "hash::set::HashSet")):
                if last in ITER_METHODS:
                    kind = "hash"
            elif t2 == "IntoIterator::into_iter" and ("hash::map::HashMap<" in tyargs.split(" ")[0] if tyargs else False):
                kind = "hash"
            elif t2 == "IntoIterator::into_iter" and (c.fn_args and (c.fn_args[0].lstrip("&").startswith(("std::collections::hash::map::HashMap<", "std::collections::hash::set::HashSet<")) or c.fn_args[0].lstrip("&").endswith(("SelectorHashSet", "ComplexSelectorHashSet")))):
                kind = "hash"
            elif t2.startswith("BTreeMap::") or t2.startswith("BTreeSet::") or (head or "").endswith(("btree::map::BTreeMap", "btree::set::BTreeSet")):
                key_ty = targs[0] if targs else ""
                if not key_ty:
                    # from the generic args of the method
                    key_ty = (c.fn_args[0] if c.fn_args else "")
                if "common::Identifier" in key_ty.split(",")[0]:
                    kind = "intern"
            elif t2 == "IntoIterator::into_iter" and c.fn_args and c.fn_args[0].lstrip("&").startswith(("std::collections::btree::map::BTreeMap<grass_compiler::common::Identifier", "std::collections::btree::set::BTreeSet<grass_compiler::common::Identifier")):
                kind = "intern"
            if kind:
                out.append((kind, c))
    return out


def consumers(body, call):
    """Calls that take the result of `call` as an argument (by value or through a reference to the local)."""
    out = []
    for c2 in body.calls():
        for i, a in enumerate(c2.args):
            ap = an.trace_operand(body, a, through_calls=False)
            if ap.root == ("call", call.name(), call.bb) and not ap.proj:
                out.append((c2, i))
    return out


def loop_region(body, next_call):
    """Blocks of the loop driven by `next_call` (from its Some edge back to the call)."""
    # blocks reachable from the call's target that can reach the call block again
    start = next_call.target
    fwd = common.reach_from(body, start)
    pr = body.preds()
    back = set()
    st = [next_call.bb]
    while st:
        x = st.pop()
        if x in back:
            continue
        back.add(x)
        st.extend(pr[x])
    return fwd & back


def classify_use(prog, body, call, depth=0):
    """Returns ('ok', why) | ('sensitive', description, Call) for the data produced by an ordered-source call."""
    if depth > 8:
        return ("sensitive", "iterator chain too long to follow", call)
    cons = consumers(body, call)
    if not cons:
        # returned / stored?
        if call.dest is not None and call.dest.local == 0:
            return ("escape", "the iterator/collection is returned to the caller in its unspecified order", call)
        # assigned to a local used by a `for` loop through into_iter on the local itself
        return ("ok", "result unused")
    verdicts = []
    for c2, idx in cons:
        t2 = an.tail2(c2.callee)
        if t2 in INSENSITIVE or t2 in ("Iterator::for_each",) and False:
            verdicts.append(("ok", t2))
        elif t2 in ADAPTORS:
            verdicts.append(classify_use(prog, body, c2, depth + 1))
        elif t2 in ("Iterator::collect", "FromIterator::from_iter"):
            dt = body.locals[c2.dest.local] if c2.dest is not None else {}
            if (dt.get("adt") or "") in UNORDERED_TARGETS:
                verdicts.append(("ok", "collected into %s" % dt.get("adt").rsplit("::", 1)[-1]))
            elif c2.dest is not None and c2.dest.local == 0 and not c2.dest.proj:
                verdicts.append(("escape", "collected into %s and returned" % (dt.get("s") or "?"), c2))
            else:
                sub = classify_use(prog, body, c2, depth + 1)
                if sub[0] == "ok" and sub[1] == "result unused":
                    sub = ("sensitive", "collected into the ordered container %s" % (dt.get("s") or "?"), c2)
                verdicts.append(sub if sub[0] != "ok" else ("sensitive", "collected into the ordered container %s" % (dt.get("s") or "?"), c2))
        elif t2 == "Extend::extend":
            recv = body.locals[c2.args[0].place.local] if c2.args[0].place is not None else {}
            tgt = (recv.get("adt") or "")
            if idx == 1 and tgt in UNORDERED_TARGETS:
                verdicts.append(("ok", "extends a %s" % tgt.rsplit("::", 1)[-1]))
            else:
                verdicts.append(("sensitive", "extends the ordered container %s" % recv.get("s"), c2))
        elif t2 == "Iterator::next":
            region = loop_region(body, c2)
            if c2.bb not in region:
                verdicts.append(("sensitive", "takes the first element of an unordered traversal", c2))
                continue
            bad = []
            for c3 in body.calls():
                if c3.bb in region and c3.bb != c2.bb:
                    t3 = an.tail2(c3.callee)
                    if t3 not in COMMUTATIVE_CALLS and not an.getter_fields(prog, c3.name()):
                        bad.append(t3 or c3.name())
            errs = an.err_exit_blocks(body) & region
            if not bad and not errs:
                verdicts.append(("ok", "loop body only performs commutative map/set updates"))
            elif body.root in REVIEWED_LOOPS:
                verdicts.append(("ok", "reviewed loop: " + REVIEWED_LOOPS[body.root]))
            else:
                verdicts.append(("sensitive", "loop over the traversal performs order-dependent work (%s%s)" % (", ".join(sorted(set(bad))[:6]), "; early Err exit" if errs else ""), c2))
        elif t2 in ("Deref::deref", "Clone::clone", "AsRef::as_ref"):
            verdicts.append(classify_use(prog, body, c2, depth + 1))
        else:
            verdicts.append(("sensitive", "consumed by %s" % (t2 or c2.name()), c2))
    sens = [v for v in verdicts if v[0] == "sensitive"]
    if sens:
        return sens[0]
    esc = [v for v in verdicts if v[0] == "escape"]
    if esc:
        return esc[0]
    return verdicts[0]


def _flow_rule(ctx, rule_id, title, kind, floor):
    from .conv import stable_ap, callers_of
    r = RuleResult(rule_id, title)
    prog = ctx.prog()
    srcs = [(k, c) for k, c in ordered_sources(prog) if k == kind]
    seen = {}
    what = "hash-table iteration order (randomised per process)" if kind == "hash" else "Identifier order (= interning order, depends on what this thread compiled before)"
    producers = {}  # function path -> origin description

    def key_for(b, c):
        recv = an.trace_operand(b, c.args[0]) if c.args else None
        key = "%s|%s(%s)" % (b.path, an.tail2(c.callee), stable_ap(b, recv) if recv is not None else "")
        n = seen.get(key, 0)
        seen[key] = n + 1
        return key + ("#%d" % n if n else "")

    for k, c in srcs:
        b = c.body
        v = classify_use(prog, b, c)
        key = key_for(b, c)
        if v[0] == "ok":
            r.ok(key, why=v[1])
        elif v[0] == "escape":
            producers.setdefault(b.path, "%s (%s)" % (b.path, v[1]))
            r.ok(key, why="order escapes to the callers, which are checked: " + v[1])
        elif key in REVIEWED_SITES:
            r.ok(key, why="reviewed: " + REVIEWED_SITES[key])
        else:
            r.violate(key, "%s exposes %s: %s" % (b.path, what, v[1]), v[2].loc())
    # callers of functions that hand out order-carrying data
    done = set()
    site_done = set()
    work = sorted(producers)
    rounds = 0
    while work and rounds < 6:
        rounds += 1
        nxt = []
        for p in work:
            if p in done:
                continue
            done.add(p)
            pb = prog.bodies[p]
            for cc in callers_of(prog, pb):
                g = cc.body
                if g.path == p:
                    continue
                if (g.path, cc.bb) in site_done:
                    continue
                site_done.add((g.path, cc.bb))
                v = classify_use(prog, g, cc)
                key = "%s|uses %s" % (g.path, an.tail2(cc.callee))
                n = seen.get(key, 0)
                seen[key] = n + 1
                if n:
                    key += "#%d" % n
                if v[0] == "ok":
                    r.ok(key, why=v[1], producer=p)
                elif v[0] == "escape":
                    if g.path not in producers:
                        producers[g.path] = producers[p] + " -> " + g.path
                        nxt.append(g.path)
                    r.ok(key, why="forwards the order-carrying data to its own callers", producer=p)
                elif key in REVIEWED_SITES:
                    r.ok(key, why="reviewed: " + REVIEWED_SITES[key], producer=p)
                elif (rule_id, key) in UNDECIDED_SITES:
                    r.undecide(key, UNDECIDED_SITES[(rule_id, key)], v[2].loc())
                else:
                    r.violate(key, "%s consumes data in %s (obtained through %s): %s" % (g.path, what, an.tail2(cc.callee), v[1]), v[2].loc())
        work = nxt
    r.floor("ordered-traversal sources", len(srcs), floor)
    return r


def rule_a(ctx):
    return _flow_rule(ctx, "C02-a", "hash-based collections are never iterated where the order can reach output", "hash", 10)


def rule_b(ctx):
    return _flow_rule(ctx, "C02-b", "ordered traversals of BTreeMap/BTreeSet keyed by Identifier (interning order) never reach output", "intern", 12)


# --------------------------------------------------------------------------------------------

STATICS = {
    # path -> (class, reason)
    "grass_compiler::unit::conversion::UNIT_CONVERSION_TABLE": ("table", "immutable Lazy table"),
    "grass_compiler::unit::conversion::KNOWN_COMPATIBILITIES": ("table", "immutable Lazy table"),
    "grass_compiler::builtin::functions::GLOBAL_FUNCTIONS": ("table", "immutable Lazy registry"),
    "grass_compiler::builtin::functions::DISALLOWED_PLAIN_CSS_FUNCTION_NAMES": ("table", "immutable Lazy set"),
    "grass_compiler::color::name::NAMED_COLORS": ("table", "immutable phf maps"),
    "grass_compiler::builtin::functions::FUNCTION_COUNT": ("counter", "identity of Builtin values: only compared"),
    "grass_compiler::selector::complex::COMPLEX_SELECTOR_UNIQUE_ID": ("counter", "identity of ComplexSelector values: only compared/hashed"),
}
AMBIENT = ("rand::", "getrandom::", "std::time::", "std::env::", "std::process::id", "std::thread::current", "std::thread::id",
           "std::collections::hash::map::RandomState::new", "std::ptr::hash", "std::hash::random::RandomState::new")
AMBIENT_ALLOWED = {
    "grass_compiler::builtin::functions::math::random": "documented source of randomness (random())",
    "grass_compiler::builtin::functions::string::unique_id": "documented source of randomness (unique-id())",
    "<grass_compiler::selector::extend::extended_selector::ExtendedSelector as std::hash::Hash>::hash": "pointer identity hash; the set it keys is covered by C02-a",
}


def rule_c(ctx):
    r = RuleResult("C02-c", "every static is an immutable table, an identity counter whose value never reaches output, or the thread-local interner")
    configs = ["default"] + (["no-default", "wasm-exports", "macro"] if ctx.thorough() else [])
    n = 0
    for cfg in configs:
        prog = ctx.prog(cfg)
        for crate, s in prog.hir_items("statics"):
            if crate not in ("grass_compiler", "grass", "include_sass"):
                continue
            p = norm(s["path"])
            n += 1
            key = "static|%s" % p
            if s.get("thread_local") or "__RUST_STD_INTERNAL_VAL" in p:
                if "interner::STRINGS" in p:
                    r.ok(key, cls="thread-local interner")
                else:
                    r.violate(key, "new thread-local %s: per-thread state that survives a compilation" % p, "%s:%d" % (s["span"]["file"], s["span"]["l"]))
                continue
            if s.get("mut"):
                r.violate(key, "static mut %s" % p, "%s:%d" % (s["span"]["file"], s["span"]["l"]))
                continue
            cls = STATICS.get(p)
            if cls is None and crate == "include_sass" and p.endswith("::_DECLS"):
                r.ok(key, cls="rustc-generated proc-macro registry")
                continue
            if cls is None:
                r.violate(key, "unclassified static %s of type %s: process-wide state must be an immutable table or a reviewed identity counter" % (p, s["ty"]["s"]), "%s:%d" % (s["span"]["file"], s["span"]["l"]))
                continue
            ty = s["ty"]["s"]
            if cls[0] == "table":
                if any(x in ty for x in ("Mutex", "RwLock", "RefCell", "Cell<", "Atomic")):
                    r.violate(key, "table %s has interior mutability (%s)" % (p, ty))
                else:
                    r.ok(key, cls="table", ty=ty)
            else:
                # counter: every load must flow only into a struct field that is compared/hashed, never formatted
                ok, why = _counter_confined(prog, p)
                if ok:
                    r.ok(key, cls="identity counter", uses=why)
                else:
                    r.violate(key, "the value of counter %s escapes identity use: %s" % (p, why))
    r.floor("statics", n, 8)
    # the interner is only reached through LocalKey::with
    prog = ctx.prog()
    for b in prog.bodies.values():
        for bb, i, pl, rv, s in b.assignments():
            if rv["k"] == "tlref" and "STRINGS" in rv.get("def", "") and not b.path.startswith("grass_compiler::interner::"):
                r.violate("interner|access|%s" % b.root, "the thread-local interner is accessed outside interner.rs, in %s" % b.path)
    # ... and only through operations whose result does not reveal what earlier compilations interned:
    # get_or_intern (same text -> same id within a thread, ids only compared) and resolve (id -> its own text).
    ALLOWED = {"Rodeo::get_or_intern": "idempotent insert", "Rodeo::resolve": "id -> text", "Rodeo::default": "construction", "Rodeo::new": "construction"}
    ni = 0
    for b in prog.bodies.values():
        for c in b.calls():
            if (c.callee or "").startswith("lasso::"):
                ni += 1
                t2 = an.tail2(c.callee)
                key = "interner|op|%s|%s" % (b.root, t2)
                if t2 in ALLOWED:
                    r.ok(key, why=ALLOWED[t2])
                else:
                    r.violate(key, "%s queries the interner with %s: its answer depends on which strings earlier compilations on this thread interned "
                              "(only get_or_intern and resolve are history-transparent)" % (b.path, c.callee), c.loc())
    r.floor("interner operations", ni, 4)
    return r


def _counter_confined(prog, static_path):
    """Loads of an atomic counter: `fetch_add` results may only be stored in a struct field (an id)."""
    uses = []
    short = static_path.rsplit("::", 1)[-1]
    for b in prog.bodies.values():
        for c in b.calls():
            if not c.args:
                continue
            ap = an.trace_operand(b, c.args[0])
            if ap.root[0] == "static" and norm(ap.root[1]) == static_path:
                t2 = an.tail2(c.callee)
                if t2 not in ("Atomic::fetch_add", "AtomicUsize::fetch_add", "AtomicU32::fetch_add"):
                    return False, "%s applied to the counter in %s" % (t2, b.path)
                # result must flow into an aggregate field (the id) and nowhere else
                res = ("call", c.name(), c.bb)
                stored = False
                for bb, i, pl, rv, s in b.assignments():
                    if rv["k"] == "agg" and rv.get("agg") == "adt":
                        for o in rv.get("ops", []):
                            if an.trace_operand(b, Operand(o), through_calls=False).root == res:
                                stored = True
                for c2 in b.calls():
                    for a in c2.args:
                        if an.trace_operand(b, a, through_calls=False).root == res:
                            return False, "counter value passed to %s in %s" % (c2.name(), b.path)
                uses.append("%s: stored as id=%s" % (b.path.rsplit("::", 2)[-2] + "::" + b.path.rsplit("::", 1)[-1], stored))
    if not uses:
        return False, "no fetch_add found (anchor missing)"
    return True, uses


def rule_d(ctx):
    r = RuleResult("C02-d", "ambient inputs (randomness, time, environment, addresses) are confined to random(), unique-id() and the pointer hash")
    configs = ["default"] + (["no-default", "wasm-exports"] if ctx.thorough() else [])
    n = 0
    for cfg in configs:
        prog = ctx.prog(cfg)
        for b in prog.bodies.values():
            if b.crate not in ("grass_compiler", "grass"):
                continue
            for c in b.calls():
                nm = c.name() or ""
                if any(nm.startswith(a) for a in AMBIENT) or (c.callee or "").startswith("rand::"):
                    n += 1
                    key = "%s|%s" % (b.root, nm.split("<")[0].rsplit("::", 2)[-2] + "::" + nm.rsplit("::", 1)[-1] if "::" in nm else nm)
                    if b.root in AMBIENT_ALLOWED:
                        r.ok(key, why=AMBIENT_ALLOWED[b.root], config=cfg)
                    else:
                        r.violate(key, "%s reads an ambient input (%s): the result would depend on something other than source, options and files" % (b.path, nm), c.loc())
            # pointer-to-integer casts: only inside Debug impls (Debug text never reaches output, see below)
            for bb, i, pl, rv, s in b.assignments():
                if rv["k"] == "cast" and ("PointerExposeProvenance" in rv["cast"] or "PointerExposeAddress" in rv["cast"]):
                    if s["span"].get("exp"):
                        continue
                    key = "%s|ptr-to-int" % b.root
                    if b.root.endswith(" as std::fmt::Debug>::fmt"):
                        r.ok(key, why="address printed by a Debug impl only")
                    else:
                        r.violate(key, "%s converts a pointer to an integer" % b.path, "%s:%d" % (b.file, s["span"]["l"]))
            # Debug formatting is used only in panic messages (or for primitives): it is not an output channel
            if not b.root.endswith(" as std::fmt::Debug>::fmt"):
                for c in b.calls():
                    if (c.name() or "").endswith("Argument::new_debug"):
                        exp = c.span.get("exp") or []
                        prim = c.fn_args and c.fn_args[0] in ("u8", "u16", "u32", "u64", "usize", "i32", "i64", "char", "bool", "&str", "str", "f64")
                        key = "%s|debug-format|%s" % (b.root, c.fn_args[0] if c.fn_args else "?")
                        if any(m in ("unreachable!", "panic!", "todo!", "unimplemented!", "assert!", "assert_eq!", "debug_assert!", "debug_assert_eq!") for m in exp) or prim:
                            r.ok(key)
                        else:
                            r.violate(key, "%s formats a %s with {:?}: Debug text (ids, addresses) could reach output" % (b.path, c.fn_args[0] if c.fn_args else "value"), c.loc())
    r.floor("ambient-input call sites", n, 3)
    return r


FRESH_CTORS = {"HashMap::new", "HashSet::new", "BTreeMap::new", "BTreeSet::new", "Vec::new", "IndexSet::new", "IndexMap::new", "Default::default",
               "ExtensionStore::new", "Environment::new", "CssTree::new", "ContextFlags::empty", "Arc::new", "RefCell::new", "Configuration::empty",
               "Scopes::new", "PathBuf::from", "Path::to_path_buf", "Into::into", "From::from", "ToOwned::to_owned", "VecDeque::new"}


def rule_e(ctx):
    r = RuleResult("C02-e", "per-compilation state (Visitor, Serializer, CodeMap) is created fresh inside each entry-point call")
    prog = ctx.prog()
    vn = prog.one("evaluate::visitor::Visitor::new")
    lit = None
    for bb, i, pl, rv, s in vn.assignments():
        if rv["k"] == "agg" and rv.get("adt", "").endswith("evaluate::visitor::Visitor"):
            lit = rv
    if lit is None:
        raise AnchorMissing("Visitor::new has no Visitor struct literal")
    n = 0
    for name, o in zip(lit["fields"], lit["ops"]):
        n += 1
        ap = an.trace_operand(vn, Operand(o))
        key = "Visitor::new|%s" % name
        ok = False
        if ap.root[0] == "arg":
            ok = True
        elif ap.root[0] == "const":
            ok = True
        elif ap.root[0] == "call":
            t2 = an.tail2(ap.root[1])
            if t2 in FRESH_CTORS or t2.endswith("::new") or t2.endswith("::default") or t2.endswith("::empty"):
                ok = True
            # constructor fed by args only
        elif ap.root[0] == "local":
            # aggregate (e.g. None, flags) built locally
            ok = all((not isinstance(d, dict)) or d["k"] in ("agg", "use", "cast") for _, _, d in vn.defs_of(ap.root[1]))
        if ok and ap.root[0] != "static":
            r.ok(key, source=repr(ap))
        else:
            r.violate(key, "Visitor.%s is initialised from %r, which is not an argument or a fresh value" % (name, ap), vn.loc())
    r.floor("Visitor fields", n, 20)
    # the entry point constructs CodeMap, Visitor and Serializer itself
    top = prog.one("grass_compiler::from_string_with_file_name")
    need = {"CodeMap::new": False, "Visitor::new": False, "Serializer::new": False}
    for c in top.calls():
        t2 = an.tail2(c.callee)
        if t2 in need:
            need[t2] = True
    for k, v in need.items():
        if v:
            r.ok("from_string_with_file_name|%s" % k)
        else:
            r.violate("from_string_with_file_name|%s" % k, "the entry point no longer creates a fresh %s per compilation" % k.split("::")[0], top.loc())
    return r


RULES = [rule_a, rule_b, rule_c, rule_d, rule_e]
