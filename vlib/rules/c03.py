"""C03 — SassScript scoping and control flow (structural discipline clauses)."""
from ..core import RuleResult
from ..facts import AnchorMissing, Operand, Place
from .. import an, psa
from . import common, pairing

G = "grass_compiler::"
C04_SLOTS = {"field:parent", "field:style_rule_ignoring_at_root", "field:media_queries", "field:media_query_sources", "field:declaration_name",
             "flag:AT_ROOT_EXCLUDING_STYLE_RULE", "flag:IN_KEYFRAMES", "swap:extender"}

# instances confirmed on the pinned tree (function | slot); a missing one means the save/restore pair was removed
EXPECTED = [
    "<grass_compiler::parse::sass::SassParser as grass_compiler::parse::stylesheet::StylesheetParser>::scan_else|field:current_indentation",
    "<grass_compiler::parse::sass::SassParser as grass_compiler::parse::stylesheet::StylesheetParser>::scan_else|field:next_indentation",
    "<grass_compiler::parse::sass::SassParser as grass_compiler::parse::stylesheet::StylesheetParser>::scan_else|field:next_indentation_end",
    "grass_compiler::evaluate::visitor::Visitor::import_like_node|flag:IS_USE_ALLOWED",
    "grass_compiler::evaluate::visitor::Visitor::load_module|pair:active_modules",
    "grass_compiler::evaluate::visitor::Visitor::visit_dynamic_import_rule|pair:active_modules",
    "grass_compiler::evaluate::visitor::Visitor::visit_dynamic_import_rule::{closure#0}|field:configuration",
    "grass_compiler::evaluate::visitor::Visitor::visit_each_stmt|pair:scope",
    "grass_compiler::evaluate::visitor::Visitor::visit_for_stmt|pair:scope",
    "grass_compiler::evaluate::visitor::Visitor::visit_forward_rule|field:configuration",
    "grass_compiler::evaluate::visitor::Visitor::visit_function_call_expr|flag:IN_FUNCTION",
    "grass_compiler::evaluate::visitor::Visitor::visit_if_stmt|pair:scope",
    "grass_compiler::evaluate::visitor::Visitor::visit_include_stmt|flag:IN_MIXIN",
    "grass_compiler::evaluate::visitor::Visitor::visit_string|flag:IN_SUPPORTS_DECLARATION",
    "grass_compiler::evaluate::visitor::Visitor::visit_stylesheet|field:is_plain_css",
    "grass_compiler::evaluate::visitor::Visitor::visit_stylesheet|swap:current_import_path",
    "grass_compiler::evaluate::visitor::Visitor::visit_stylesheet|pair:active_modules",
    "grass_compiler::evaluate::visitor::Visitor::visit_supports_condition|flag:IN_SUPPORTS_DECLARATION",
    "grass_compiler::evaluate::visitor::Visitor::with_content|field:env.content",
    "grass_compiler::evaluate::visitor::Visitor::with_environment|swap:env",
    "grass_compiler::evaluate::visitor::Visitor::with_scope|flag:IN_SEMI_GLOBAL_SCOPE",
    "grass_compiler::evaluate::visitor::Visitor::with_scope|pair:scope",
    "grass_compiler::parse::stylesheet::StylesheetParser::parse_at_rule|flag:IS_USE_ALLOWED",
    "grass_compiler::parse::stylesheet::StylesheetParser::parse_each_rule|flag:IN_CONTROL_FLOW",
    "grass_compiler::parse::stylesheet::StylesheetParser::parse_for_rule|flag:IN_CONTROL_FLOW",
    "grass_compiler::parse::stylesheet::StylesheetParser::parse_if_rule|flag:IN_CONTROL_FLOW",
    "grass_compiler::parse::stylesheet::StylesheetParser::parse_include_rule|flag:IN_CONTENT_BLOCK",
    "grass_compiler::parse::stylesheet::StylesheetParser::parse_mixin_rule|flag:FOUND_CONTENT_RULE",
    "grass_compiler::parse::stylesheet::StylesheetParser::parse_style_rule|flag:IN_STYLE_RULE",
    "grass_compiler::parse::stylesheet::StylesheetParser::parse_while_rule|flag:IN_CONTROL_FLOW",
    "grass_compiler::parse::stylesheet::StylesheetParser::supports_condition_in_parens|flag:IN_PARENS",
    "grass_compiler::parse::stylesheet::StylesheetParser::unknown_at_rule|flag:IN_UNKNOWN_AT_RULE",
    "grass_compiler::parse::value::ValueParser::parse_paren_expr|flag:IN_PARENS",
    "grass_compiler::parse::value::ValueParser::parse_value|flag:IN_PARENS",
]
# opens that deliberately do not restore on every path (reviewed, one line of reason each)
REVIEWED_OPEN = {
    "grass_compiler::evaluate::visitor::Visitor::visit_dynamic_import_rule|pair:active_modules":
        "the fast path returns right after visit_stylesheet(stylesheet), which removes the same canonical url from active_modules itself (importing a file twice works: checked)",
    "grass_compiler::parse::stylesheet::StylesheetParser::parse_at_rule|flag:IS_USE_ALLOWED":
        "by design (comment in the code, mirrors dart-sass): set to false for every at-rule and set back only for @use/@forward",
    "grass_compiler::parse::value::ValueParser::parse_value|flag:IN_PARENS":
        "by design: on a top-level comma the expression is re-parsed outside the paren context; the caller parse_paren_expr restores IN_PARENS on all of its exits",
}


def in_scope(b):
    return b.crate == "grass_compiler" and (b.file.endswith("evaluate/visitor.rs") or "/parse/" in b.file or b.file.endswith("evaluate/env.rs") or b.file.endswith("evaluate/scope.rs"))


def pairing_rule(ctx, rule_id, title, want_c04, expected, reviewed, floor):
    r = RuleResult(rule_id, title)
    prog = ctx.prog()
    found = {}
    for b in prog.bodies.values():
        if not in_scope(b):
            continue
        for inst in pairing.discover(prog, b):
            slot = "%s:%s" % inst.slot
            is_c04 = slot in C04_SLOTS or (slot == "flag:IN_UNKNOWN_AT_RULE" and b.file.endswith("visitor.rs"))
            if is_c04 != want_c04:
                continue
            found[inst.key()] = (b, inst)
    for key, (b, inst) in sorted(found.items()):
        bad = pairing.check_instance(b, inst)
        if not bad:
            r.ok(key, opens=len(inst.opens), closes=len(inst.closes))
        elif key in reviewed:
            r.ok(key, why="reviewed exception: " + reviewed[key])
        else:
            o, ex = bad[0]
            r.violate(key, "%s: %s is overwritten at %s but a normal (non-Err) return is reachable without restoring it" % (b.path, inst.desc, o.where), o.where)
    for key in expected:
        if key not in found:
            r.violate(key + "|missing", "the save/restore pair %s confirmed on the pinned tree is no longer present (the state is overwritten without being restored, or no longer saved)" % key)
    r.floor("save/restore instances", len(found), floor)
    return r


def rule_ab(ctx):
    return pairing_rule(ctx, "C03-ab", "scopes are exited and dynamic state (flags, env, content, configuration, import path) is restored on every non-Err exit",
                        False, EXPECTED, REVIEWED_OPEN, 34)


CACHE_WRITERS = {
    G + "evaluate::scope::Scopes::find_var": "stores the slot it just found",
    G + "evaluate::scope::Scopes::get_var": "stores the slot it just found",
    G + "evaluate::scope::Scopes::insert_var_last": "stores the slot it writes",
    G + "evaluate::scope::Scopes::exit_scope": "invalidates",
    G + "evaluate::scope::Scopes::new": "initialises",
    G + "evaluate::scope::Scopes::new_closure": "copies with the cloned scope stack",
    G + "evaluate::env::Environment::insert_var": "stores the slot it writes",
    G + "evaluate::env::Environment::import_forwards": "invalidates after removing shadowed members",
    "<" + G + "evaluate::scope::Scopes as std::default::Default>::default": "initialises",
    "<" + G + "evaluate::scope::Scopes as std::clone::Clone>::clone": "clone",
}


def _is_none(body, rv, depth=0):
    if rv["k"] == "agg":
        return rv.get("variant") == "None"
    if rv["k"] == "use":
        op = rv["op"]
        if op["k"] == "const":
            return op["c"].get("ty", "").startswith("std::option::Option")
        if not op["p"].get("p") and depth < 4:
            defs = body.defs_of(op["p"]["l"])
            return bool(defs) and all(isinstance(d, dict) and _is_none(body, d, depth + 1) for _, _, d in defs)
    return False


def _some_pair(body, rv, depth=0):
    """(name AP, index AP) when rv is / moves `Some((name, idx))`."""
    if rv["k"] == "use" and "p" in rv["op"] and not rv["op"]["p"].get("p") and depth < 4:
        defs = body.defs_of(rv["op"]["p"]["l"])
        if len(defs) == 1 and isinstance(defs[0][2], dict):
            return _some_pair(body, defs[0][2], depth + 1)
        return None
    if rv["k"] == "agg" and rv.get("variant") == "Some" and rv.get("ops"):
        o = rv["ops"][0]
        if "p" in o and not o["p"].get("p"):
            defs = body.defs_of(o["p"]["l"])
            if len(defs) == 1 and isinstance(defs[0][2], dict) and defs[0][2]["k"] == "agg" and defs[0][2].get("agg") == "tuple" and len(defs[0][2]["ops"]) == 2:
                a, b_ = defs[0][2]["ops"]
                return an.trace_operand(body, Operand(a)), an.trace_operand(body, Operand(b_))
    return None


def _cache_refresh_before(body, writers, site_bb, name_ap, idx_ap):
    """Is the block `site_bb` dominated by `last_variable_index = Some((name, idx))` with these access paths, or by a reset to None?"""
    for bb, rv, st in writers:
        if not (bb == site_bb or body.dominates(bb, site_bb)):
            continue
        if _is_none(body, rv):
            return "reset"
        pr = _some_pair(body, rv)
        if pr is not None and pr[0] == name_ap and (idx_ap is None or pr[1] == idx_ap):
            return "refresh"
    return None


def rule_c(ctx):
    r = RuleResult("C03-c", "the variable-slot cache is invalidated whenever a scope is popped or variables are removed, and only the lookup/insert functions write it")
    prog = ctx.prog()
    writers = {}
    for b in prog.bodies.values():
        if b.crate != "grass_compiler":
            continue
        for bb, i, pl, rv, s in b.assignments():
            if pl.proj and pl.proj[-1].get("n") == "last_variable_index" and pl.proj[-1].get("adt", "").endswith("scope::Scopes"):
                writers.setdefault(b.root, []).append((bb, rv, s))
            if rv["k"] == "agg" and rv.get("adt", "").endswith("evaluate::scope::Scopes"):
                writers.setdefault(b.root, [])
    for w in sorted(writers):
        key = "last_variable_index|writer|%s" % w
        if w in CACHE_WRITERS:
            r.ok(key, why=CACHE_WRITERS[w])
        else:
            r.violate(key, "%s writes Scopes.last_variable_index; only the lookup/insert functions may (a stale cache makes get_var read the wrong scope or panic)" % w)
    # functions that shrink the scope stack or remove variables must reset the cache afterwards
    n = 0
    for b in prog.bodies.values():
        if b.crate != "grass_compiler":
            continue
        shrink = []
        for c in b.calls():
            t2 = an.tail2(c.callee)
            if t2 in ("Vec::pop", "Vec::truncate", "Vec::clear", "Vec::remove", "BTreeMap::remove", "BTreeMap::clear", "BTreeMap::retain") and c.args:
                from .c05 import _chain
                ap = _chain(b, an.trace_operand(b, c.args[0], through_calls=False), limit=20)
                tail = ap.rsplit(" <- ", 1)[-1]
                if tail.startswith("deref()@") or "scopes.variables" not in tail:
                    # follow one more level through the final Deref of the Arc<RefCell<Vec<..>>>
                    ap = ap + " <- " + repr(an.trace_operand(b, c.args[0]))
                    root = an.trace_operand(b, c.args[0], through_calls=False)
                    g = 0
                    while root.root[0] == "call" and g < 24:
                        cc = b.call_at(root.root[2])
                        if not cc.args:
                            break
                        root = an.trace_operand(b, cc.args[0], through_calls=False)
                        g += 1
                    ap += " <- " + repr(an.trace_place(b, Place({"l": root.root[1]})) if root.root[0] == "local" else root)
                if "scopes.variables" in ap or (b.root.startswith(G + "evaluate::scope::Scopes") and ".variables" in ap and "arg1" in ap):
                    shrink.append(c)
        if not shrink:
            continue
        resets = [bb for bb, rv, s in writers.get(b.root, []) if _is_none(b, rv)]
        for c in shrink:
            n += 1
            key = "%s|%s-then-reset" % (b.root, an.tail2(c.callee))
            hit = an.reach_avoiding(b, c.bb, set(resets) | an.err_exit_blocks(b), set(b.exits()) - set(resets))
            if resets and hit is None:
                r.ok(key)
            else:
                r.violate(key, "%s removes variables / pops a scope (%s) but can return without resetting last_variable_index" % (b.path, an.tail2(c.callee)), c.loc())
    r.floor("scope-shrinking sites", n, 2)
    # inserting a variable must not leave a cached slot of the same name pointing at an outer scope: every insertion into a
    # scope map is preceded by `last_variable_index = Some((name, idx))` (or a reset), happens at the global index 0 (never
    # inside a cached slot), or the obligation is discharged in the same way at every call of the raw primitive
    ni = 0
    prims = {}
    for b in prog.bodies.values():
        if not b.root.startswith(G + "evaluate::scope::Scopes::") or b.is_closure():
            continue
        for c in b.calls():
            if an.tail2(c.callee) == "BTreeMap::insert" and any("value::Value" in a for a in c.fn_args + c.res_args) and any("common::Identifier" in a for a in c.fn_args + c.res_args):
                prims.setdefault(b.path, []).append(c)
    for path, sites in sorted(prims.items()):
        b = prog.bodies[path]
        mine = [(bb, rv, st) for bb, rv, st in writers.get(b.root, [])]
        for c in sites:
            ni += 1
            name_ap = an.trace_operand(b, c.args[1])
            how = _cache_refresh_before(b, mine, c.bb, name_ap, None)
            key = "%s|insert-refreshes-cache" % path
            if how:
                r.ok(key, how=how)
                continue
            # raw primitive: which parameters carry name and index?
            if name_ap.root[0] != "arg" or name_ap.proj:
                r.violate(key, "%s inserts a variable without refreshing last_variable_index and its name is not a plain parameter" % path, c.loc())
                continue
            name_param = name_ap.root[1]
            idx_params = [k for k in range(2, b.argc + 1) if b.local_ty(k) == "usize"]
            callers = [(cb, cc) for cb in prog.bodies.values() for cc in cb.calls() if path in prog.call_targets(cc)]
            if not callers or len(idx_params) != 1:
                r.violate(key, "%s inserts a variable without refreshing last_variable_index (no dominating `= Some((name, idx))`)" % path, c.loc())
                continue
            r.ok(key, how="raw primitive: obligation checked at its %d call site(s)" % len(callers))
            for cb, cc in callers:
                ni += 1
                ckey = "%s|calls %s|cache-consistent" % (cb.path, path.rsplit("::", 1)[-1])
                idx_op = cc.args[idx_params[0] - 1]
                nm = an.trace_operand(cb, cc.args[name_param - 1])
                ix = an.trace_operand(cb, idx_op)
                if ix.root[0] == "const" and str(ix.root[1]) == "0":
                    r.ok(ckey, how="global scope (index 0) cannot be shadowed by a cached slot")
                    continue
                cw = [(bb, rv, st) for bb, rv, st in writers.get(cb.root, [])]
                how = _cache_refresh_before(cb, cw, cc.bb, nm, ix)
                if how:
                    r.ok(ckey, how=how)
                else:
                    r.violate(ckey, "%s inserts variable %r at scope index %r through %s without first setting last_variable_index to that (name, index) or "
                              "resetting it: a cached slot for the same name in an outer scope keeps shadowing the new binding" % (cb.path, nm, ix, path), cc.loc())
    r.floor("variable insertion sites", ni, 4)
    # the cache hit is validated by name
    for fn in ("find_var", "get_var"):
        b = prog.one("evaluate::scope::Scopes::" + fn)
        eqs = [c for c in b.calls() if an.tail2(c.callee) in ("PartialEq::eq",) and any("common::Identifier" in a for a in c.fn_args + c.res_args)]
        if eqs:
            r.ok("Scopes::%s|cache-hit-compares-name" % fn)
        else:
            r.violate("Scopes::%s|cache-hit-compares-name" % fn, "Scopes::%s uses the cached slot without comparing the cached name" % fn, b.loc())
    return r


PREC_GROUPS = [["SingleEq"], ["Or"], ["And"], ["Equal", "NotEqual"], ["GreaterThan", "GreaterThanEqual", "LessThan", "LessThanEqual"], ["Plus", "Minus"], ["Mul", "Div", "Rem"]]


def rule_d(ctx):
    r = RuleResult("C03-d", "operator precedence table, and/or short-circuit and if() evaluate exactly the specified operands")
    prog = ctx.prog()
    pb = prog.one("common::BinaryOp::precedence")
    tab, adt = common.variant_ret_table(pb)
    if not tab:
        raise AnchorMissing("BinaryOp::precedence is not a match returning constants")
    try:
        prec = {k: int(v) for k, v in tab.items()}
    except (TypeError, ValueError):
        r.violate("precedence|shape", "BinaryOp::precedence does not return integer constants: %s" % tab, pb.loc())
        return r
    flat = [op for g in PREC_GROUPS for op in g]
    for op in flat:
        if op not in prec:
            r.violate("precedence|%s|missing" % op, "BinaryOp::%s has no precedence" % op, pb.loc())
    for gi, g in enumerate(PREC_GROUPS):
        for op in g:
            key = "precedence|%s" % op
            if op not in prec:
                continue
            same = all(prec.get(o) == prec[op] for o in g if o in prec)
            lower = all(prec[x] < prec[op] for h in PREC_GROUPS[:gi] for x in h if x in prec)
            if same and lower:
                r.ok(key, value=prec[op])
            else:
                r.violate(key, "precedence of %s (%d) breaks the Sass order `=` < or < and < ==,!= < <,>,<=,>= < +,- < *,/,%%" % (op, prec[op]), pb.loc())
    # visit_bin_op
    vb = prog.one("Visitor::visit_bin_op")
    found = None
    for sw, ap, adt2, variants, rv in common.discr_switches(vb):
        if (adt2 or "").endswith("common::BinaryOp"):
            found = (sw, variants)
            break
    if not found:
        raise AnchorMissing("visit_bin_op does not match on the operator")
    sw, variants = found
    arms = common.switch_arms(vb, sw, variants)
    visits = [c for c in vb.calls() if (c.name() or "").endswith("Visitor::visit_expr")]
    left_eval = [c for c in visits if vb.dominates(c.bb, sw)]
    if len(left_eval) == 1:
        r.ok("visit_bin_op|left-evaluated-first")
    else:
        r.violate("visit_bin_op|left-evaluated-first", "visit_bin_op evaluates %d operands before dispatching on the operator (expected the left operand only)" % len(left_eval), vb.loc())
    for op, want in (("Or", False), ("And", True)):
        tb = arms[op]
        region = common.exclusive_region(vb, sw, tb) or {tb}
        rv_ = [c for c in visits if c.bb in region]
        key = "visit_bin_op|%s|short-circuit" % op
        if len(rv_) != 1:
            r.violate(key, "the `%s` arm of visit_bin_op evaluates the right operand %d times" % (op.lower(), len(rv_)), vb.loc())
            continue
        facts_at = an.bool_guard_calls(vb, rv_[0].bb)
        tru = [truth for kind, obj, truth, d in facts_at if kind == "call" and (obj.name() or "").endswith("Value::is_truthy") and d in region | {tb}]
        if tru == [want]:
            r.ok(key, right_operand_evaluated_when="left is %s" % ("truthy" if want else "falsey"))
        else:
            r.violate(key, "`%s` evaluates its right operand when the left one is %s (facts: %s); it must do so only when the left is %s" % (op.lower(), "truthy" if (tru and tru[0]) else "falsey/unknown", tru, "truthy" if want else "falsey"), rv_[0].loc())
    for op in flat:
        if op in ("Or", "And") or op not in arms:
            continue
        tb = arms[op]
        region = common.exclusive_region(vb, sw, tb)
        if not region:
            continue  # arm shared with others: counted once
        rv_ = [c for c in visits if c.bb in region]
        key = "visit_bin_op|%s|evaluates-right-once" % op
        if len(rv_) == 1 and vb.dominates(tb, rv_[0].bb):
            r.ok(key)
        elif len(rv_) != 1:
            r.violate(key, "the %s arm of visit_bin_op evaluates the right operand %d times" % (op, len(rv_)), vb.loc())
    # if(): exactly one branch
    vt = prog.one("Visitor::visit_ternary")
    vs = [c for c in vt.calls() if (c.name() or "").endswith("Visitor::visit_expr")]
    tr = [c for c in vt.calls() if (c.name() or "").endswith("Value::is_truthy")]
    if len(vs) == 3 and len(tr) == 1:
        cond = [c for c in vs if vt.dominates(c.bb, tr[0].bb)]
        branches = [c for c in vs if c not in cond]
        pol = []
        for c in branches:
            f = [truth for kind, obj, truth, d in an.bool_guard_calls(vt, c.bb) if kind == "call" and obj.bb == tr[0].bb]
            pol.append(f[0] if f else None)
        if len(cond) == 1 and sorted(map(str, pol)) == ["False", "True"]:
            r.ok("visit_ternary|exactly-one-branch")
        else:
            r.violate("visit_ternary|exactly-one-branch", "if() does not evaluate exactly one of its branches depending on the condition (branch guards: %s)" % pol, vt.loc())
    else:
        r.violate("visit_ternary|shape", "visit_ternary has %d visit_expr calls and %d truthiness tests; expected 3 and 1" % (len(vs), len(tr)), vt.loc())
    return r


def rule_e(ctx):
    r = RuleResult("C03-e", "argument binding order: arguments are evaluated in the caller's scope, arity is verified before binding, defaults are evaluated after the positional parameters are bound and before the body runs")
    prog = ctx.prog()
    outer = prog.one("Visitor::run_user_defined_callable")
    ev = [c for c in outer.calls() if (c.name() or "").endswith("Visitor::eval_maybe_args")]
    we = [c for c in outer.calls() if (c.name() or "").endswith("Visitor::with_environment")]
    if ev and we and outer.dominates(ev[0].bb, we[0].bb):
        r.ok("run_user_defined_callable|args-evaluated-before-environment-switch")
    else:
        r.violate("run_user_defined_callable|args-evaluated-before-environment-switch", "arguments are no longer evaluated (eval_maybe_args) before switching to the callee's environment: they would see the callee's scope", outer.loc())
    inner = [b for b in prog.family(outer) if b.path == outer.path + "::{closure#0}::{closure#0}"]
    if len(inner) != 1:
        raise AnchorMissing("run_user_defined_callable: binding closure not found")
    b = inner[0]
    ver = [c for c in b.calls() if (c.name() or "").endswith("ArgumentDeclaration::verify")]
    ins = [c for c in b.calls() if (c.name() or "").endswith("Scopes::insert_var_last")]
    dfl = [c for c in b.calls() if an.tail2(c.callee) in ("Option::map_or_else",)]
    run = [c for c in b.calls() if an.tail2(c.callee) in ("FnOnce::call_once",)]
    if not (ver and ins and dfl and run):
        raise AnchorMissing("run_user_defined_callable closure: verify/insert_var_last/default evaluation/run call missing (%d,%d,%d,%d)" % (len(ver), len(ins), len(dfl), len(run)))
    if all(b.dominates(ver[0].bb, c.bb) for c in ins + dfl + run):
        r.ok("binding|verify-first")
    else:
        r.violate("binding|verify-first", "parameters are bound or the body runs before ArgumentDeclaration::verify checked the arity", ver[0].loc())
    order = {bb: i for i, bb in enumerate(b.rpo())}
    first_ins = min(ins, key=lambda c: order.get(c.bb, 1 << 30))
    if order.get(first_ins.bb, 0) < order.get(dfl[0].bb, 0) and not b.dominates(dfl[0].bb, first_ins.bb):
        r.ok("binding|positional-before-defaults")
    else:
        r.violate("binding|positional-before-defaults", "default expressions are evaluated before the positional parameters are bound (a default could not refer to an earlier parameter)", dfl[0].loc())
    # the defaults are bound in a loop that may run zero times: require that the body call comes after that loop on every
    # path (the loop's blocks are never reachable again once the body has run) and is not inside it
    if all(dfl[0].bb not in common.reach_from(b, c.bb) and c.bb in common.reach_from(b, dfl[0].bb) for c in run):
        r.ok("binding|defaults-before-body")
    else:
        r.violate("binding|defaults-before-body", "the callable's body can run before its default arguments are bound", run[0].loc())
    # defaults are evaluated by the visitor that is inside the callee environment (closure receives `visitor`)
    dcl = [x for x in prog.family(b) if x is not b]
    if any(any((c.name() or "").endswith("Visitor::visit_expr") for c in x.calls()) for x in dcl):
        r.ok("binding|defaults-evaluated-in-callee-scope")
    else:
        r.violate("binding|defaults-evaluated-in-callee-scope", "default expressions are no longer evaluated inside the binding closure", b.loc())
    return r



# Scope maps (BTreeMap<Identifier, Value | Mixin | SassFunction> behind Arc<RefCell<..>>) are shared with every closure created
# while the scope was live (Scopes::new_closure clones the Arcs).  Destructive operations on maps of these types are an exact,
# reviewed inventory; anything else changes what a function/mixin/@content block defined in that scope sees after the scope exits.
SCOPE_MAP_DESTRUCTIVE_REVIEWED = {
    ("grass_compiler::evaluate::env::Environment::import_forwards", "remove"): "members of the *current* module scope shadowed by a forwarded module are dropped while that scope is still being built",
    ("<grass_compiler::utils::map_view::BaseMapView<T> as grass_compiler::utils::map_view::MapView>::remove", "remove"): "the MapView primitive; its callers are the forward/configuration bookkeeping checked by C12-a",
    ("grass_compiler::ast::args::ArgumentResult::get_named", "remove"): "named-argument map of one call, not a scope",
    ("grass_compiler::evaluate::visitor::Visitor::run_user_defined_callable", "remove"): "named-argument map of one call, not a scope",
}
DESTRUCTIVE = ("clear", "remove", "remove_entry", "retain", "pop_first", "pop_last", "split_off", "drain", "extract_if", "append")


def rule_f(ctx):
    r = RuleResult("C03-f", "closures keep seeing the scope they were defined in: scope maps are only ever inserted into — no clear/remove/retain/... on a "
                   "BTreeMap<Identifier, Value|Mixin|SassFunction> outside the reviewed inventory, and new_closure shares (does not copy) the maps")
    prog = ctx.prog()
    n = 0
    for b in prog.bodies.values():
        if b.crate != "grass_compiler":
            continue
        for c in b.calls():
            t2 = an.tail2(c.callee) or ""
            if not t2.startswith("BTreeMap::") or t2.split("::", 1)[1] not in DESTRUCTIVE or len(c.fn_args) < 2:
                continue
            if "common::Identifier" not in c.fn_args[0]:
                continue
            elem = c.fn_args[1]
            if not (elem.endswith("value::Value") or elem.endswith("::Mixin") or elem.endswith("::SassFunction") or elem == "T"):
                continue
            n += 1
            op = t2.split("::", 1)[1]
            key = "%s|BTreeMap::%s" % (b.root, op)
            why = SCOPE_MAP_DESTRUCTIVE_REVIEWED.get((b.root, op))
            if why:
                r.ok(key, reviewed=why)
            else:
                r.violate(key, "%s applies BTreeMap::%s to a map of %s keyed by Identifier — the type of a scope map, which closures share by Arc: a function, mixin or "
                          "@content block defined in that scope then sees it emptied/changed after the scope exits" % (b.path, op, elem.rsplit("::", 1)[-1]), c.loc())
    r.floor("destructive operations on Identifier-keyed value/mixin/function maps", n, 5)
    # new_closure shares the maps: it must clone the Arcs of variables/mixins/functions, not the maps
    nc = prog.one("evaluate::scope::Scopes::new_closure")
    shares = set()
    for c in nc.calls():
        if an.tail2(c.callee) == "Iterator::map" and len(c.args) == 2 and c.fn_args and "Iter<'_, std::sync::Arc<std::cell::RefCell<std::collections::btree::map::BTreeMap<" in c.fn_args[0]:
            f = an.trace_operand(nc, c.args[1])
            src = an.trace_operand(nc, c.args[0])
            if f.root[0] == "fn" and f.root[1].endswith("Clone::clone"):
                cur, g = src, 0
                while cur.root[0] == "call" and g < 8:
                    cc = nc.call_at(cur.root[2])
                    cur = an.trace_operand(nc, cc.args[0]) if cc and cc.args else cur
                    g += 1
                if cur.root == ("arg", 1) and cur.proj:
                    shares.add(cur.proj[-1])
    shares = sorted(shares)
    if {"variables", "mixins", "functions"} <= set(shares):
        r.ok("Scopes::new_closure|shares-maps", fields=shares)
    else:
        r.violate("Scopes::new_closure|shares-maps", "Scopes::new_closure no longer clones the Arcs of variables, mixins and functions (found %s): closures would not observe "
                  "later assignments to variables of their defining scope" % shares, nc.loc())
    return r



def rule_g(ctx):
    r = RuleResult("C03-g", "@each destructuring binds every listed variable on every iteration: the values zipped with the variables are the element's values followed by an "
                   "unbounded supply of null (the variable list is never longer than what it is zipped with)")
    prog = ctx.prog()
    b = prog.one("evaluate::visitor::Visitor::visit_each_stmt")
    zips = [c for c in b.calls() if an.tail2(c.callee) == "Iterator::zip" and c.fn_args and "common::Identifier" in c.fn_args[0]]
    if len(zips) != 1:
        raise AnchorMissing("visit_each_stmt: expected one zip of the variable names with the element values, found %d" % len(zips))
    other = zips[0].fn_args[1] if len(zips[0].fn_args) > 1 else ""
    INFINITE = ("iter::adapters::cycle::Cycle<", "iter::sources::repeat::Repeat<", "iter::sources::repeat_with::RepeatWith<")
    key = "visit_each_stmt|missing-values-are-null"
    if "iter::adapters::chain::Chain<" in other and any(x in other for x in INFINITE) and "value::Value" in other:
        r.ok(key, padded_with=[x for x in INFINITE if x in other])
    else:
        r.violate(key, "visit_each_stmt zips the @each variables with `%s`, which is not the element's values chained with an endless null iterator: when an element has two or "
                  "more values fewer than there are variables, the later variables are not assigned and keep their value from the previous iteration" % other[:200], zips[0].loc())
    return r



def rule_h(ctx):
    r = RuleResult("C03-h", "@return exits loops: in the @for/@each/@while visitors (and their closures), once visit_stmt has produced a value no path leads back to the "
                   "header of any enclosing loop — the statement loop and the iteration loop are both left")
    from . import loops as _loops
    prog = ctx.prog()
    n = 0
    for fn in ("visit_for_stmt", "visit_each_stmt", "visit_while_stmt"):
        top = prog.one("evaluate::visitor::Visitor::" + fn)
        for b in [top] + list(prog.closures_of(top)):
            nl = _loops.natural_loops(b)
            for c in b.calls():
                if not (c.name() or "").endswith("Visitor::visit_stmt"):
                    continue
                enclosing = [h for h, blk in nl.items() if c.bb in blk]
                if not enclosing:
                    continue
                # switches that test the result for Some
                some_edges = []
                for bb in range(len(b.blocks)):
                    t = b.term(bb)
                    if t["k"] != "switch" or bb in b._const_switch:
                        continue
                    for kind, obj, pol in an.cond_sources(b, Operand(t["d"])):
                        if kind == "call" and an.tail2(obj.callee) in ("Option::is_some", "Option::is_none"):
                            src = an.trace_operand(b, obj.args[0])
                            if src.root[0] == "call" and src.root[2] == c.bb:
                                truth = pol if an.tail2(obj.callee) == "Option::is_some" else (not pol)
                                some_edges.append(common.bool_edge(b, bb, truth))
                        if kind == "discr":
                            ap, rv_ = obj
                            if ap.root[0] == "call" and ap.root[2] == c.bb and ap.proj in ((), ("?",)) and (rv_.get("adt", "") or "").endswith("option::Option"):
                                for v, tb in t["ts"]:
                                    if rv_.get("variants", {}).get(v) == "Some":
                                        some_edges.append(tb)
                n += 1
                key = "%s|return-leaves-all-loops" % b.path.rsplit("Visitor::", 1)[-1]
                if not some_edges:
                    r.violate(key, "%s never tests whether visit_stmt produced a value inside its loop: @return would not stop the loop" % b.path, c.loc())
                    continue
                back = [h for h in enclosing for e in some_edges if e == h or an.reach_avoiding(b, e, set(), {h}) is not None]
                if not back:
                    r.ok(key, loops=len(enclosing))
                else:
                    r.violate(key, "%s: after visit_stmt has produced a value (a @return was executed) control can return to the header of an enclosing loop at line %d — the loop keeps "
                              "iterating, later iterations run their side effects and the value of the last @return wins" % (b.path, b.term(back[0])["span"]["l"]), c.loc())
    r.floor("loop bodies that evaluate statements", n, 3)
    return r


RULES = [rule_ab, rule_c, rule_d, rule_e, rule_f, rule_g, rule_h]
