"""C13 — imports follow the documented search order, only via the supplied Fs."""
from ..core import RuleResult
from ..facts import AnchorMissing, Operand, Place
from .. import an
from . import common

LIB_CRATES = ("grass_compiler", "grass", "include_sass")

FS_PATH_METHODS = (
    "exists", "is_file", "is_dir", "metadata", "symlink_metadata", "canonicalize", "read_dir", "read_link",
    "try_exists", "is_symlink",
)


def is_ambient_fs(name):
    if name.startswith("std::fs::") or name.startswith("std::os::unix::fs") or name.startswith("std::os::fd"):
        return True
    if name.startswith("std::path::Path::") and name.rsplit("::", 1)[1] in FS_PATH_METHODS:
        return True
    if name in ("std::env::current_dir", "std::env::set_current_dir", "std::env::temp_dir", "std::env::home_dir"):
        return True
    if name.startswith("std::fs::File") or name.startswith("std::fs::OpenOptions"):
        return True
    return False


# (caller path, callee) pairs that may touch the real file system, one line of reason each.
FS_ALLOWED = {
    "<grass_compiler::fs::StdFs as grass_compiler::fs::Fs>::is_file": "StdFs is the std-backed Fs implementation",
    "<grass_compiler::fs::StdFs as grass_compiler::fs::Fs>::is_dir": "StdFs is the std-backed Fs implementation",
    "<grass_compiler::fs::StdFs as grass_compiler::fs::Fs>::read": "StdFs is the std-backed Fs implementation",
    "<grass_compiler::fs::StdFs as grass_compiler::fs::Fs>::canonicalize": "StdFs is the std-backed Fs implementation",
    "<include_sass::FileTracker as grass_compiler::fs::Fs>::read": "proc-macro dependency tracking: canonicalize result only recorded, lookup delegated to the wrapped Fs",
    "<include_sass::FileTracker as grass_compiler::fs::Fs>::is_file": "as above (nightly feature only)",
    "<include_sass::FileTracker as grass_compiler::fs::Fs>::is_dir": "as above (nightly feature only)",
}

# who may call the `dyn Fs` methods, and with which receiver
FS_TRAIT = "grass_compiler::fs::Fs::"
FS_CALLERS = {
    "grass_compiler::evaluate::visitor::Visitor::find_import": ("is_file", "is_dir"),
    "grass_compiler::evaluate::visitor::Visitor::import_like_node": ("read", "canonicalize"),
    "grass_compiler::evaluate::visitor::Visitor::load_module": ("canonicalize",),
    "grass_compiler::from_path": ("read",),
    "grass_compiler::parse::stylesheet::StylesheetParser::__parse": ("canonicalize",),
    "<include_sass::FileTracker as grass_compiler::fs::Fs>::read": ("read",),
    "<include_sass::FileTracker as grass_compiler::fs::Fs>::is_file": ("is_file",),
    "<include_sass::FileTracker as grass_compiler::fs::Fs>::is_dir": ("is_dir",),
}


def _options_fs(rs):
    # `self.options().fs` through the StylesheetParser accessor
    import re
    return re.search(r"options\(\)@bb\d+\.fs$", rs) is not None


def rule_a(ctx):
    r = RuleResult("C13-a", "file-system access confined to `impl Fs for StdFs`; dyn Fs calls only from the import search with receiver options.fs")
    configs = ["default"] + (["macro", "no-default", "wasm-exports"] if ctx.thorough() else [])
    n_forbidden_sites = 0
    n_dyn = 0
    seen_callers = set()
    for cfg in configs:
        prog = ctx.prog(cfg)
        for b in prog.bodies.values():
            is_bin = b.crate.endswith("#bin")
            for c in b.calls():
                for n in c.names():
                    if is_ambient_fs(n):
                        n_forbidden_sites += 1
                        key = "%s|%s" % (b.path, n)
                        if is_bin:
                            # the CLI may open exactly the OUTPUT path (C20 checks what is written to it)
                            if b.path == "grass::main" and n.startswith("std::fs::OpenOptions"):
                                r.ok(key, why="CLI output file", config=cfg)
                            else:
                                r.violate(key, "CLI touches the file system outside the OUTPUT file: %s calls %s" % (b.path, n), c.loc())
                        elif b.root in FS_ALLOWED:
                            r.ok(key, why=FS_ALLOWED[b.root], config=cfg)
                        else:
                            r.violate(key, "ambient file-system access outside `impl Fs for StdFs`: %s calls %s" % (b.path, n), c.loc())
                        break
                if c.callee and c.callee.startswith(FS_TRAIT):
                    m = c.callee[len(FS_TRAIT):]
                    n_dyn += 1
                    key = "%s|Fs::%s" % (b.root, m)
                    allowed = FS_CALLERS.get(b.root)
                    if allowed is None or m not in allowed:
                        r.violate(key, "Fs::%s called from %s, which is not part of the import search / entry points" % (m, b.path), c.loc())
                        continue
                    seen_callers.add((b.root, m))
                    recv = an.trace_operand(b, c.args[0])
                    rs = repr(recv)
                    if rs.endswith("options.fs") or rs.endswith("options().fs") or _options_fs(rs) or (
                        rs.endswith(".fs") and (b.root.startswith("<include_sass") or b.root == "grass_compiler::from_path")
                    ):
                        r.ok(key, receiver=rs, config=cfg)
                    else:
                        r.violate(key + "|receiver", "Fs::%s in %s is not invoked on the Fs supplied in the options (receiver: %s)" % (m, b.path, rs), c.loc())
    r.floor("ambient fs call sites (StdFs impl + CLI)", n_forbidden_sites, 5)
    r.floor("dyn Fs call sites", n_dyn, 50)
    r.floor("distinct (caller, Fs method) pairs", len(seen_callers), 6)
    return r


# --------------------------------------------------------------------------------------------
# C13-b probe order (symbolic candidates)

def _sym(body, ap, cache):
    root = ap.root
    if root[0] == "call":
        call = body.call_at(root[2])
        return _sym_call(body, call, cache)
    if root[0] == "arg":
        s = "arg%d" % root[1]
    elif root[0] == "const":
        s = repr(root[1])
    elif root[0] == "local":
        s = "L%d" % root[1]
    else:
        s = repr(root)
    proj = [p for p in ap.proj if p != "?"]
    if proj:
        s += "." + ".".join(proj)
    return s


def _sym_call(body, call, cache):
    if call.bb in cache:
        return cache[call.bb]
    cache[call.bb] = "<rec>"
    n = call.name() or "?"
    last = n.rsplit("::", 1)[-1]
    args = [_sym(body, an.trace_operand(body, a), cache) for a in call.args]
    if n == "std::path::Path::with_extension":
        s = "ext(%s,%s)" % (args[0], args[1])
    elif n in ("std::path::Path::join",):
        s = "join(%s,%s)" % (args[0], args[1])
    elif n in ("std::path::Path::parent", "std::path::Path::file_name"):
        s = "%s(%s)" % (last, args[0])
    elif last in ("unwrap_or_else", "to_str", "must_use", "to_path_buf", "into", "to_string_lossy", "as_ref"):
        s = args[0]
    elif n == "std::fmt::format":
        s = args[0]
    elif n == "std::fmt::Arguments::new":
        s = "fmt(%s)" % args[0]
    elif an.tail2(n) == "Iterator::next":
        s = "next(%s)" % args[0]
    elif an.tail2(n) == "IntoIterator::into_iter":
        s = "iter(%s)" % args[0]
    else:
        s = "%s(%s)" % (last, ",".join(args))
    cache[call.bb] = s
    return s


def probes(body):
    """Fs::is_file / is_dir probes of `find_import` in dominance order with symbolic candidate."""
    cache = {}
    out = []
    for c in body.calls():
        if c.callee in (FS_TRAIT + "is_file", FS_TRAIT + "is_dir"):
            cand = _sym(body, an.trace_operand(body, c.args[1]), cache)
            out.append((c, c.callee[len(FS_TRAIT):], cand))
    order = {b: i for i, b in enumerate(body.rpo())}
    out.sort(key=lambda x: order.get(x[0].bb, 1 << 30))
    return out


def expected_probes(P, loop):
    """E3: the import candidate order for one location with base path P.
    Within a location: `.import` variants first (sass, scss, css), then sass, scss, css;
    each as plain file then `_partial`; then, if P is a directory, the same for P/index."""
    exts = ["import.sass", "import.scss", "import.css", "sass", "scss", "css"]
    out = []

    def group(base):
        for e in exts:
            x = "ext(%s,%r)" % (base, e)
            out.append(("is_file", x))
            out.append(("is_file", "join(parent(%s),fmt('_{}'))" % x))

    group(P)
    out.append(("is_dir", P))
    group("join(%s,'index')" % P)
    return out


def rule_b(ctx):
    r = RuleResult("C13-b", "probe order of find_import equals the documented candidate order")
    prog = ctx.prog()
    body = prog.one("Visitor::find_import")
    pr = probes(body)
    got = [(m, cand) for _, m, cand in pr]
    # discover base names
    # explicit-extension prefix: 4 probes; then relative location; then load-path loop
    if len(got) < 4 + 25 + 25:
        r.violate("find_import|shape", "cannot extract probe table from find_import: expected >= 54 Fs probes, found %d" % len(got))
        return r
    # base path symbol: the candidate of the third probe (try_path!(path_buf)) is the bare base path
    P = got[2][1]
    exp = [
        ("is_file", "ext(%s,fmt('.import{}'))" % P),
        ("is_file", "join(parent(ext(%s,fmt('.import{}'))),fmt('_{}'))" % P),
        ("is_file", P),
        ("is_file", "join(parent(%s),fmt('_{}'))" % P),
    ]
    exp += expected_probes(P, False)
    # load-path location: base symbol is whatever the first loop probe extends
    rest = got[len(exp):]
    if not rest:
        r.violate("find_import|load_paths", "load paths are never probed in find_import")
        return r
    first = rest[0][1]
    if not (first.startswith("ext(") and first.endswith(",'import.sass')")):
        r.violate("find_import|load_paths|first", "first load-path probe is %s, expected the .import.sass candidate" % first, pr[len(exp)][0].loc())
        return r
    Q = first[len("ext("):-len(",'import.sass')")]
    exp += expected_probes(Q, True)
    r.note("base path symbol P=%s; load-path symbol Q=%s" % (P, Q))
    n = max(len(exp), len(got))
    for i in range(n):
        e = exp[i] if i < len(exp) else None
        g = got[i] if i < len(got) else None
        key = "find_import|probe#%d" % i
        if e == g:
            r.ok(key, probe="%s %s" % g)
        else:
            where = pr[i][0].loc() if i < len(pr) else None
            r.violate(key, "find_import probe #%d is %s, documented order requires %s" % (i, g, e), where)
            break
    # Q must be load_path.join(url) where load_path iterates options.load_paths in order
    if "load_paths" not in Q or "arg2" not in Q:
        r.violate("find_import|load_paths|base", "load-path candidate base %s is not <load path from options.load_paths>.join(url)" % Q)
    else:
        r.ok("find_import|load_paths|base", base=Q)
    # sequential order = dominance chains.  Layout (probe indices): 0..3 explicit-extension group; 4..15 relative
    # candidates; 16 is_dir(P); 17..28 P/index candidates (only under is_dir == true); 29..40 load-path candidates;
    # 41 is_dir(Q); 42..53 Q/index candidates.
    chain_ok = True
    if len(pr) == 54:
        groups = [range(1, 4), range(5, 17), range(18, 29), range(30, 42), range(43, 54)]
        for g in groups:
            for i in g:
                a, bb = pr[i - 1][0].bb, pr[i][0].bb
                if not body.dominates(a, bb):
                    chain_ok = False
                    r.violate("find_import|order#%d" % i, "probe #%d does not dominate probe #%d: the documented order is not enforced on every path" % (i - 1, i), pr[i][0].loc())
                    break
        # relative location completely before load paths; index only if the directory exists
        for (dirp, first_index) in ((16, 17), (41, 42)):
            facts_at = an.bool_guard_calls(body, pr[first_index][0].bb)
            if any(k == "call" and o.bb == pr[dirp][0].bb and truth is True for k, o, truth, _ in facts_at):
                r.ok("find_import|index-under-is_dir#%d" % dirp)
            else:
                chain_ok = False
                r.violate("find_import|index-under-is_dir#%d" % dirp, "index candidates (probe #%d..) are not guarded by is_dir (probe #%d) being true" % (first_index, dirp), pr[first_index][0].loc())
        if not body.dominates(pr[16][0].bb, pr[29][0].bb):
            chain_ok = False
            r.violate("find_import|relative-before-load-paths", "the load-path probes are not dominated by the relative-location probes", pr[29][0].loc())
        if chain_ok:
            r.ok("find_import|dominance-chains", probes=54)
    r.floor("Fs probes in find_import", len(got), 54)
    return r


def rule_c(ctx):
    r = RuleResult("C13-c", "candidates are built by appending the extension, never by replacing a dotted suffix")
    prog = ctx.prog()
    body = prog.one("Visitor::find_import")
    seen = set()
    for c in body.calls():
        if c.name() in ("std::path::Path::with_extension", "std::path::PathBuf::set_extension"):
            ext = an.trace_operand(body, c.args[1])
            key = "find_import|%s|%s" % (c.name().rsplit("::", 1)[-1], _sym(body, ext, {}))
            if key in seen:
                continue
            seen.add(key)
            r.violate(key, "find_import builds a candidate with %s(%s): this replaces an existing dotted suffix of the URL (`foo.bar` -> `foo.scss`) instead of appending" % (c.name().rsplit("::", 1)[-1], _sym(body, ext, {})), c.loc())
    if not seen:
        r.ok("find_import|no-with_extension")
    return r


def rule_d(ctx):
    r = RuleResult("C13-d", "for_import reaches the search; load paths are consulted before every `None` result")
    prog = ctx.prog()
    node = prog.one("Visitor::import_like_node")
    # (1) parameter #3 (for_import; self=1, url=2) must be used at all
    used = common.local_is_used(node, 3)
    if used:
        r.ok("import_like_node|for_import")
    else:
        r.violate("import_like_node|for_import", "parameter `for_import` of import_like_node is never read: @use/@forward probe `.import` files exactly like @import", node.loc())
    # (2) every None return of find_import passes the load_paths loop
    fi = prog.one("Visitor::find_import")
    lp_blocks = set()
    for c in fi.calls():
        if an.tail2(c.name()) == "IntoIterator::into_iter":
            ap = repr(an.trace_operand(fi, c.args[0]))
            if "load_paths" in ap:
                lp_blocks.add(c.bb)
    if not lp_blocks:
        raise AnchorMissing("find_import: no iteration over options.load_paths found")
    none_blocks = set()
    for b, i, p, rv, s in fi.assignments():
        if p.local == 0 and not p.proj and rv["k"] == "agg" and rv.get("variant") == "None":
            none_blocks.add(b)
    if not none_blocks:
        raise AnchorMissing("find_import: no `None` return found")
    for nb in sorted(none_blocks):
        # is nb reachable from entry avoiding the load_paths iteration?
        hit = an.reach_avoiding(fi, None, lp_blocks, {nb})
        line = fi.stmts(nb)[0]["span"]["l"] if fi.stmts(nb) else fi.term(nb)["span"]["l"]
        kind = "explicit-extension" if _dominated_by_ext_test(fi, nb) else "generic"
        key = "find_import|None-return|%s" % kind
        if hit is None:
            r.ok(key)
        else:
            r.violate(key, "find_import returns None on a path that never consults options.load_paths (%s branch)" % kind, "%s:%d" % (fi.file, line))
    return r


def _dominated_by_ext_test(body, b):
    for c in body.calls():
        if c.name() == "std::path::Path::extension" and body.dominates(c.bb, b):
            # the None return lexically inside the `if extension == ...` block: it precedes the first with_extension("import.sass")
            for c2 in body.calls():
                if c2.name() == "std::path::Path::with_extension" and an.trace_operand(body, c2.args[1]).root == ("const", "import.sass"):
                    return not body.dominates(c2.bb, b)
    return False


def rule_e(ctx):
    r = RuleResult("C13-e", "plain-CSS import classification: `.css` suffix, http://, https://, // prefixes, or modifiers")
    prog = ctx.prog()
    body = prog.one("utils::is_plain_css_import")
    tests = common.str_tests(body)
    exp = {("ends_with", ".css"), ("starts_with", "http://"), ("starts_with", "https://"), ("starts_with", "//")}
    got = set()
    for call, meth, lit in tests:
        got.add((meth, lit))
        v = common.ret_const_on_edge(body, call, True)
        key = "is_plain_css_import|%s(%r)" % (meth, lit)
        if (meth, lit) not in exp:
            r.violate(key, "is_plain_css_import tests %s(%r), which is not one of the documented plain-CSS URL forms" % (meth, lit), call.loc())
        elif v is True:
            r.ok(key)
        else:
            r.violate(key, "is_plain_css_import: a successful %s(%r) test does not make the function return true" % (meth, lit), call.loc())
    for e in sorted(exp - got):
        r.violate("is_plain_css_import|missing|%s(%r)" % e, "is_plain_css_import no longer tests %s(%r)" % e)
    # case-insensitivity: the tested string derives from to_ascii_lowercase
    for call, meth, lit in tests:
        ap = repr(an.trace_operand(body, call.args[0]))
        if "to_ascii_lowercase" not in ap:
            r.violate("is_plain_css_import|case|%s(%r)" % (meth, lit), "is_plain_css_import tests the raw URL (not the ASCII-lowercased one) with %s(%r)" % (meth, lit), call.loc())
    # the early `len < 5 => false` test must not exceed the shortest classifiable URL ("//a.b" / "a.css" = 5)
    for b, i, p, rv, s in body.assignments():
        if rv["k"] == "binop" and rv["op"] in ("Lt", "Le", "Gt", "Ge"):
            for side in ("a", "b"):
                o = Operand(rv[side])
                if o.is_const():
                    v = int(o.const_value())
                    lim = v if rv["op"] in ("Lt", "Gt") else v + 1
                    key = "is_plain_css_import|minlen"
                    if lim <= 5:
                        r.ok(key, limit=lim)
                    else:
                        r.violate(key, "is_plain_css_import rejects URLs shorter than %d characters; `a.css` (5) must classify as plain CSS" % lim)
    # parse_import_argument: Plain iff is_plain_css_import(url) || modifiers.is_some()
    pia = prog.one("StylesheetParser::parse_import_argument")
    sass_sites = [(b, rv) for b, i, p, rv, s in pia.assignments() if rv["k"] == "agg" and rv.get("adt", "").endswith("AstImport") and rv.get("variant") == "Sass"]
    if len(sass_sites) != 1:
        raise AnchorMissing("parse_import_argument: expected one AstImport::Sass construction, found %d" % len(sass_sites))
    sb = sass_sites[0][0]
    facts_at = an.bool_guard_calls(pia, sb)
    have_plain = any(k == "call" and o.name().endswith("is_plain_css_import") and truth is False for k, o, truth, _ in facts_at)
    have_mod = any(k == "call" and o.name().endswith("Option::is_some") and truth is False and "try_import_modifiers" in repr(an.trace_operand(pia, o.args[0])) for k, o, truth, _ in facts_at)
    if have_plain:
        r.ok("parse_import_argument|Sass-import-requires-!is_plain_css_import")
    else:
        r.violate("parse_import_argument|is_plain_css_import", "parse_import_argument builds a Sass import without having tested is_plain_css_import(url) == false", pia.loc())
    if have_mod:
        r.ok("parse_import_argument|Sass-import-requires-no-modifiers")
    else:
        r.violate("parse_import_argument|modifiers", "parse_import_argument builds a Sass import although media/supports modifiers may be present (must be emitted as a CSS @import)", pia.loc())
    r.floor("string tests in is_plain_css_import", len(tests), 4)
    return r


def rule_f(ctx):
    r = RuleResult("C13-f", "syntax chosen from the resolved file's extension: css -> Css, sass -> Sass, else Scss")
    prog = ctx.prog()
    body = prog.one("InputSyntax::for_path")
    table = common.str_match_table(body)
    exp = {"css": "Css", "sass": "Sass", None: "Scss"}
    for k, v in exp.items():
        key = "for_path|%s" % k
        if table.get(k) == v:
            r.ok(key, maps_to=v)
        else:
            r.violate(key, "InputSyntax::for_path maps extension %r to %r, expected %r" % (k, table.get(k), v), body.loc())
    for k in table:
        if k not in exp:
            r.violate("for_path|extra|%s" % k, "InputSyntax::for_path has an undocumented extension arm %r -> %r" % (k, table[k]), body.loc())
    # the matched string is the lower-cased extension of the path argument
    ok = False
    for c in body.calls():
        if c.name() == "std::path::Path::extension" and repr(an.trace_operand(body, c.args[0])).startswith("arg1"):
            ok = True
    if ok:
        r.ok("for_path|uses-extension-of-path")
    else:
        r.violate("for_path|extension", "InputSyntax::for_path no longer derives the syntax from Path::extension(path)", body.loc())
    # parse_file dispatches on for_path(path) of the *resolved* file
    pf = prog.one("Visitor::parse_file")
    disp = common.enum_switch_calls(pf)
    expd = {"Scss": "ScssParser", "Sass": "SassParser", "Css": "CssParser"}
    for var, parser in expd.items():
        got = disp.get(var, set())
        key = "parse_file|%s" % var
        if any(parser in g for g in got) and not any(p in g for g in got for p in expd.values() if p != parser):
            r.ok(key, parser=parser)
        else:
            r.violate(key, "Visitor::parse_file dispatches InputSyntax::%s to %s, expected %s" % (var, sorted(got), parser), pf.loc())
    return r


def _derives_from_find_import(body, op, depth=0):
    """Does this operand hold (a canonicalised form of) the path returned by find_import, and nothing else?"""
    if depth > 8 or op.place is None:
        return False
    ap = an.trace_operand(body, op, through_calls=False)
    if ap.root[0] == "call":
        if ap.root[1].endswith("Visitor::find_import"):
            return True
        c = body.call_at(ap.root[2])
        if c is None:
            return False
        cand = []
        for a in c.args:
            if a.place is None:
                continue
            r0 = an.trace_operand(body, a)
            if r0.root[0] == "arg" and r0.proj and r0.proj[0] == "options":
                continue  # the Fs / options receiver
            cand.append(a)
        return bool(cand) and all(_derives_from_find_import(body, a, depth + 1) for a in cand)
    if ap.root[0] == "local":
        defs = body.defs_of(ap.root[1])
        ok = bool(defs)
        for bb, i, d in defs:
            if isinstance(d, dict) and d["k"] in ("use", "ref"):
                src = d["op"] if d["k"] == "use" else {"k": "copy", "p": d["p"]}
                ok = ok and _derives_from_find_import(body, Operand(src), depth + 1)
            else:
                ok = False
        return ok
    return False


def rule_g(ctx):
    r = RuleResult("C13-g", "the import cache cannot bypass the search: every key used on Visitor.import_cache / files_seen is the path find_import returned (canonicalised)")
    prog = ctx.prog()
    n = 0
    for b in prog.bodies.values():
        if b.crate != "grass_compiler":
            continue
        for c in b.calls():
            if not c.args or c.args[0].place is None or len(c.args) < 2:
                continue
            a0 = an.trace_operand(b, c.args[0])
            if a0.root[0] != "arg" or not a0.proj or a0.proj[-1] not in ("import_cache", "files_seen"):
                continue
            if not b.local_ty(a0.root[1]).endswith("evaluate::visitor::Visitor<'_>") and "Visitor" not in b.local_ty(a0.root[1]):
                continue
            n += 1
            key = "%s|%s.%s" % (b.root, a0.proj[-1], an.tail2(c.callee).split("::")[-1])
            if _derives_from_find_import(b, c.args[1]):
                r.ok(key)
            else:
                r.violate(key, "%s accesses Visitor.%s with a key (%r) that is not the path returned by find_import: a cached stylesheet can be returned without "
                          "searching relative to the importing file and then the load paths" % (b.path, a0.proj[-1], an.trace_operand(b, c.args[1])), c.loc())
    r.floor("import cache / files_seen accesses", n, 4)
    return r



def rule_h(ctx):
    r = RuleResult("C13-h", "a URL that already ends in .sass/.scss/.css is only tried literally and as a partial: once find_import has recognised the extension, no "
                   "path leads on to the probes that replace or add an extension")
    prog = ctx.prog()
    b = prog.one("evaluate::visitor::Visitor::find_import")
    ext_tests = []
    for c in b.calls():
        if an.tail2(c.callee) == "PartialEq::eq" and len(c.args) == 2:
            x = an.trace_operand(b, c.args[0])
            if x.root[0] == "call" and an.tail2(x.root[1]) == "Path::extension":
                ext_tests.append(c)
    generic = [c for c in b.calls() if an.tail2(c.callee) == "Path::with_extension" and len(c.args) == 2 and an.trace_operand(b, c.args[1]).root[0] == "const"]
    if len(ext_tests) < 3 or len(generic) < 6:
        raise AnchorMissing("find_import: expected the three extension tests and the generic with_extension probes (found %d / %d)" % (len(ext_tests), len(generic)))
    gblocks = {c.bb for c in generic}
    n = 0
    for c in ext_tests:
        for sw, pol in common.switches_on_call(b, c):
            tgt = common.bool_edge(b, sw, pol)
            n += 1
            reach = common.reach_from(b, tgt)
            hit = sorted(g for g in gblocks if g in reach)
            key = "find_import|explicit-extension-is-final|test#%d" % n
            if not hit:
                r.ok(key)
            else:
                r.violate(key, "after find_import has recognised an explicit .sass/.scss/.css extension, control can continue into the generic search (with_extension(\"...\") probes at "
                          "line %d ...): `@import \"theme.scss\"` can then load theme.sass / theme.css or their .import variants, and a missing file is no longer an error"
                          % b.term(hit[0])["span"]["l"], c.loc())
    r.floor("extension tests", n, 3)
    return r


RULES = [rule_a, rule_b, rule_c, rule_d, rule_e, rule_f, rule_g, rule_h]
