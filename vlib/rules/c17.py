"""C17 — nested @media queries merge to their logical intersection (decision-structure clauses)."""
from ..core import RuleResult
from ..facts import AnchorMissing, Operand
from .. import an
from . import common

MERGE = "ast::media::MediaQuery::merge"
RESULT = "ast::media::MediaQueryMergeResult"


def derives_from_field(body, ap, argn, field, depth=0):
    """Does the value described by `ap` derive (through calls' first arguments / closure-free maps) from
    `<arg argn>.<field>`?"""
    if ap.root == ("arg", argn) and field in ap.proj:
        return True
    if depth > 6 or ap.root[0] != "call":
        return False
    c = body.call_at(ap.root[2])
    if c is None:
        return False
    return any(derives_from_field(body, an.trace_operand(body, a), argn, field, depth + 1) for a in c.args)


def rule_a(ctx):
    r = RuleResult("C17-a", "an Empty merge result is decided by comparing the two media *types* (and the negated conditions being a subset)")
    prog = ctx.prog()
    b = prog.one(MERGE)
    empties = []
    for bb, i, pl, rv, s in b.assignments():
        if rv["k"] == "agg" and rv.get("adt", "").endswith(RESULT) and rv.get("variant") == "Empty" and pl.local == 0:
            empties.append((bb, s))
    if not empties:
        raise AnchorMissing("MediaQuery::merge never returns Empty")
    kinds_seen = set()
    for bb, s in empties:
        facts_at = an.bool_guard_calls(b, bb)
        type_eq = None
        mod_not = 0
        subset = False
        for kind, obj, truth, d in facts_at:
            if kind == "call" and an.tail2(obj.callee) in ("PartialEq::eq", "PartialEq::ne"):
                x = an.trace_operand(b, obj.args[0])
                y = an.trace_operand(b, obj.args[1])
                eq_true = truth if an.tail2(obj.callee) == "PartialEq::eq" else (not truth)
                if ((derives_from_field(b, x, 1, "media_type") and derives_from_field(b, y, 2, "media_type")) or
                        (derives_from_field(b, x, 2, "media_type") and derives_from_field(b, y, 1, "media_type"))):
                    type_eq = eq_true
            if kind == "call" and an.tail2(obj.callee) == "Iterator::all" and truth:
                subset = True
            if kind == "binop" and obj[0] in ("Ne", "Eq"):
                mod_not += 1
        where = "%s:%d" % (b.file, s["span"]["l"])
        if type_eq is None:
            r.violate("merge|Empty|depends-on-types", "MediaQuery::merge returns Empty on a path that never compares this_type with other_type: whether two queries intersect depends on their media types", where)
            continue
        if type_eq:
            # `not T and A`  with  `T and B`: empty iff A is a subset of B
            kinds_seen.add("negated")
            key = "merge|Empty|same-type-one-negated"
            if subset and mod_not >= 1:
                r.ok(key)
            else:
                r.violate(key, "MediaQuery::merge returns Empty for equal types without (exactly one query negated) and (negated conditions subset of positive ones): subset=%s" % subset, where)
        else:
            # `T and A` with `U and B`, T != U: empty; must be outside the negated branches
            kinds_seen.add("different-types")
            key = "merge|Empty|different-types-both-positive"
            if mod_not == 0 or all(not truth for kind, obj, truth, d in facts_at if kind == "binop"):
                r.ok(key)
            else:
                r.violate(key, "MediaQuery::merge returns Empty for different types inside the branch where exactly one query is negated (`not screen` and `print` do intersect)", where)
    for k in ("negated", "different-types"):
        if k not in kinds_seen:
            r.violate("merge|Empty|missing|%s" % k, "MediaQuery::merge has no Empty result for the %s case" % k, b.loc())
    # the non-conjunction (`or`) early exit is Unrepresentable
    first_ret = None
    for sw, pol in []:
        pass
    # Unrepresentable when the types differ under double negation: `this_type != other_type` => Unrepresentable
    unrep_ok = False
    for bb, i, pl, rv, s in b.assignments():
        if rv["k"] == "agg" and rv.get("adt", "").endswith(RESULT) and rv.get("variant") == "Unrepresentable" and pl.local == 0:
            for kind, obj, truth, d in an.bool_guard_calls(b, bb):
                if kind == "call" and an.tail2(obj.callee) in ("PartialEq::ne", "PartialEq::eq"):
                    x = an.trace_operand(b, obj.args[0])
                    y = an.trace_operand(b, obj.args[1])
                    ne_true = truth if an.tail2(obj.callee) == "PartialEq::ne" else (not truth)
                    if derives_from_field(b, x, 1, "media_type") and derives_from_field(b, y, 2, "media_type") and ne_true:
                        unrep_ok = True
    if unrep_ok:
        r.ok("merge|Unrepresentable|both-negated-different-types")
    else:
        r.violate("merge|Unrepresentable|both-negated-different-types", "MediaQuery::merge has no Unrepresentable result guarded by this_type != other_type (CSS cannot express `neither screen nor print`)", b.loc())
    return r


def rule_b(ctx):
    r = RuleResult("C17-b", "merge_media_queries: Empty -> skip, Unrepresentable -> give up (None), Success -> push; visit_media_rule drops an empty intersection and keeps unmergeable queries nested")
    prog = ctx.prog()
    b = prog.one("Visitor::merge_media_queries")
    found = None
    for sw, ap, adt, variants, rv in common.discr_switches(b):
        if (adt or "").endswith(RESULT):
            found = (sw, variants)
    if not found:
        raise AnchorMissing("merge_media_queries does not match on MediaQueryMergeResult")
    sw, variants = found
    arms = common.switch_arms(b, sw, variants)
    for var in ("Empty", "Unrepresentable", "Success"):
        tb = arms[var]
        region = common.exclusive_region(b, sw, tb) or {tb}
        calls = {an.tail2(c.callee) for c in b.calls() if c.bb in region}
        ret_none = any(rv["k"] == "agg" and rv.get("variant") == "None" and pl.local == 0 for bb, i, pl, rv, s in b.assignments() if bb in region)
        pushes = "Vec::push" in calls
        key = "merge_media_queries|%s" % var
        if var == "Empty":
            ok = not pushes and not ret_none
            want = "continue without pushing"
        elif var == "Unrepresentable":
            ok = ret_none and not pushes
            want = "return None"
        else:
            ok = pushes and not ret_none
            want = "push the merged query"
        if ok:
            r.ok(key, action=want)
        else:
            r.violate(key, "merge_media_queries handles %s with (push=%s, return None=%s); expected: %s" % (var, pushes, ret_none, want), b.loc())
    # the list handed back is the one built from the Success payloads — never one of the input lists taken as it is
    for bb_, i_, pl_, rv_, st_ in b.assignments():
        if pl_.local == 0 and not pl_.proj and rv_["k"] == "agg" and rv_.get("variant") == "Some":
            src = an.trace_operand(b, Operand(rv_["ops"][0]), through_calls=False)
            from_inputs = False
            cur, g = src, 0
            while cur.root[0] == "call" and g < 6:
                cc = b.call_at(cur.root[2])
                if cc is None or not cc.args:
                    break
                cur = an.trace_operand(b, cc.args[0], through_calls=False)
                g += 1
            if cur.root[0] == "arg":
                from_inputs = True
            key = "merge_media_queries|result-is-built-from-merges"
            if from_inputs:
                r.violate(key, "merge_media_queries returns one of its input query lists unchanged (%r) instead of the list of pairwise merge results: the emitted query list is "
                          "then wider than the intersection (`@media screen, print {@media screen {..}}` stays `screen, print`)" % (src,), "%s:%d" % (b.file, st_["span"]["l"]))
            else:
                r.ok(key)
    # the merge is query1.merge(query2) over the full cartesian product: both loops iterate the two parameters
    mc = [c for c in b.calls() if (c.name() or "").endswith("MediaQuery::merge")]
    if len(mc) == 1:
        x = an.trace_operand(b, mc[0].args[0])
        y = an.trace_operand(b, mc[0].args[1])
        srcs = set()
        for ap in (x, y):
            cur, g = ap, 0
            while cur.root[0] == "call" and g < 6:
                cc = b.call_at(cur.root[2])
                cur = an.trace_operand(b, cc.args[0]) if cc.args else cur
                g += 1
                if cur.root[0] == "arg":
                    break
            if cur.root[0] == "local":
                # iterator local: find into_iter source
                for bb_, i_, d in b.defs_of(cur.root[1]):
                    if hasattr(d, "args") and d.args:
                        c2 = an.trace_operand(b, d.args[0])
                        if c2.root[0] == "arg":
                            cur = c2
            if cur.root[0] == "arg":
                srcs.add(cur.root[1])
        if srcs == {1, 2}:
            r.ok("merge_media_queries|cartesian")
        else:
            r.violate("merge_media_queries|cartesian", "merge_media_queries does not merge every query of the first list with every query of the second (operands come from parameters %s)" % sorted(srcs), mc[0].loc())
    else:
        r.violate("merge_media_queries|merge-call", "expected exactly one MediaQuery::merge call, found %d" % len(mc), b.loc())
    # visit_media_rule
    v = prog.one("Visitor::visit_media_rule")
    empt = [c for c in v.calls() if an.tail2(c.callee) == "Vec::is_empty"]
    ok = False
    for c in empt:
        ap = an.trace_operand(v, c.args[0])
        if "and_then" in repr(ap) or "merged" in repr(ap) or "merge_media_queries" in repr(ap):
            for sw2, pol in common.switches_on_call(v, c):
                tb = common.bool_edge(v, sw2, pol)
                # the empty edge returns Ok(None) without creating a media node (no with_parent / CssStmt::Media aggregate on it)
                region = common.reach_from_avoiding(v, tb, set())
                creates = any(bb in region and rv["k"] == "agg" and rv.get("variant") == "Media" for bb, i, pl, rv, s in v.assignments())
                # region includes everything reachable; restrict to blocks not reachable from the non-empty edge
                other = common.bool_edge(v, sw2, not pol)
                excl = common.reach_from(v, tb) - common.reach_from(v, other)
                creates = any(bb in excl and rv["k"] == "agg" and rv.get("variant") == "Media" for bb, i, pl, rv, s in v.assignments())
                calls_wp = any(cc.bb in excl and (cc.name() or "").endswith("with_parent") for cc in v.calls())
                if not creates and not calls_wp:
                    ok = True
    if ok:
        r.ok("visit_media_rule|empty-intersection-dropped")
    else:
        r.violate("visit_media_rule|empty-intersection-dropped", "visit_media_rule does not return before creating a node when the merged query list is empty", v.loc())
    # unmergeable (None) keeps the inner query: the emitted query is merged_queries.unwrap_or(queries1)
    uo = [c for c in v.calls() if an.tail2(c.callee) in ("Option::unwrap_or_else", "Option::unwrap_or")]
    if uo:
        r.ok("visit_media_rule|unmergeable-keeps-inner-query", sites=len(uo))
    else:
        r.violate("visit_media_rule|unmergeable-keeps-inner-query", "visit_media_rule no longer falls back to the rule's own queries when the merge is unrepresentable", v.loc())
    return r



# ---------------------------------------------------------------------------------------------
# E3: dart-sass lib/src/ast/css/media_query.dart `merge`, outcome category only, over the atoms the Rust code tests.
def _reference(q1, q2, sub_neg_pos, len_gt, sub_few_more):
    """q = (conjunction, modifier, type) with modifier in (None,'not','only'), type in (None,'all','screen','print')."""
    c1, m1, t1 = q1
    c2, m2, t2 = q2
    if not c1 or not c2:
        return "Unrepresentable"
    if t1 is None and t2 is None:
        return "Success"
    all1 = t1 is None or t1 == "all"
    all2 = t2 is None or t2 == "all"
    if (m1 == "not") != (m2 == "not"):
        if t1 == t2:
            return "Empty" if sub_neg_pos else "Unrepresentable"
        if all1 or all2:
            return "Unrepresentable"
        return "Success"
    if m1 == "not":
        if t1 != t2:
            return "Unrepresentable"
        return "Success" if sub_few_more else "Unrepresentable"
    if all1 or all2:
        return "Success"
    if t1 != t2:
        return "Empty"
    return "Success"


def _qfield(body, ap, depth=0):
    """('self'|'other', field) when the value derives from argN.<field> through Option::map/as_ref/as_deref chains."""
    for n, who in ((1, "self"), (2, "other")):
        for f in ("modifier", "media_type", "conditions", "conjunction"):
            if derives_from_field(body, ap, n, f):
                return who, f
    return None


def rule_c(ctx):
    from .. import psa
    r = RuleResult("C17-c", "the decision structure of MediaQuery::merge yields the same outcome (Empty / Unrepresentable / Success) as the dart-sass reference "
                   "for every combination of conjunction, modifier (none/not/only), type (none/all/two concrete types) and condition-subset relations")
    prog = ctx.prog()
    b = prog.one(MERGE)
    subset_sites = sorted(c.bb for c in b.calls() if an.tail2(c.callee) == "Iterator::all")

    def classify(kind, obj, body, sw):
        if kind == "place":
            if obj.root[0] == "arg" and obj.proj == ("conjunction",):
                return psa.Pred(("CONJ", "self" if obj.root[1] == 1 else "other"), []), False
            return None
        if kind == "call":
            t2 = an.tail2(obj.callee)
            nm = obj.name() or ""
            if nm.endswith("MediaQuery::matches_all_types"):
                a = an.trace_operand(body, obj.args[0])
                if a.root[0] == "arg" and not a.proj:
                    return psa.Pred(("ALL", "self" if a.root[1] == 1 else "other"), []), False
                return None
            if t2 in ("Option::is_none", "Option::is_some"):
                q = _qfield(body, an.trace_operand(body, obj.args[0]))
                if q and q[1] == "media_type":
                    return psa.Pred(("TYPE_NONE", q[0]), []), t2 == "Option::is_some"
                return None
            if t2 in ("PartialEq::eq", "PartialEq::ne"):
                x, y = an.trace_operand(body, obj.args[0]), an.trace_operand(body, obj.args[1])
                qx, qy = _qfield(body, x), _qfield(body, y)
                if qx and qy and qx[1] == qy[1] == "media_type" and qx[0] != qy[0]:
                    return psa.Pred(("TYPE_EQ",), []), t2 == "PartialEq::ne"
                for q, o in ((qx, y), (qy, x)):
                    if q and q[1] == "modifier" and o.root[0] == "const" and "not" in str(o.root[1]):
                        return psa.Pred(("NEG", q[0]), []), t2 == "PartialEq::ne"
                return None
            if t2 == "Iterator::all":
                return psa.Pred(("SUBSET", subset_sites.index(obj.bb)), []), False
            return None
        if kind == "binop":
            if obj[0] in ("Ne", "Eq"):
                x, y = an.trace_operand(body, obj[1]), an.trace_operand(body, obj[2])
                def is_neg(ap):
                    if ap.root[0] != "call" or an.tail2(ap.root[1]) != "PartialEq::eq":
                        return None
                    c = body.call_at(ap.root[2])
                    for a, o in ((c.args[0], c.args[1]), (c.args[1], c.args[0])):
                        q = _qfield(body, an.trace_operand(body, a))
                        oo = an.trace_operand(body, o)
                        if q and q[1] == "modifier" and oo.root[0] == "const" and "not" in str(oo.root[1]):
                            return q[0]
                    return None
                nx, ny = is_neg(x), is_neg(y)
                if nx and ny and nx != ny:
                    return psa.Pred(("ONE_NEG",), []), obj[0] == "Eq"
                return None
            if obj[0] in ("Gt", "Lt"):
                x, y = an.trace_operand(body, obj[1]), an.trace_operand(body, obj[2])
                qx, qy = _qfield(body, x), _qfield(body, y)
                if qx and qy and qx[1] == qy[1] == "conditions" and "len" in repr(x) and "len" in repr(y) and qx[0] != qy[0]:
                    gt_self = (obj[0] == "Gt") == (qx[0] == "self")
                    return psa.Pred(("LEN_GT_SELF",), []), not gt_self
                return None
        return None

    sites = []
    for bb, i, pl, rv, st in b.assignments():
        if pl.local == 0 and not pl.proj and rv["k"] == "agg" and rv.get("adt", "").endswith(RESULT):
            sites.append((bb, rv.get("variant")))
    if len(sites) < 5:
        raise AnchorMissing("MediaQuery::merge: expected at least 5 result sites, found %d" % len(sites))
    site_vals = []
    for bb, var in sites:
        vals, complete = psa.valuations_at(b, bb, classify, max_states=200000)
        if not complete:
            r.violate("merge|decision-table|state-budget", "path-sensitive exploration of MediaQuery::merge did not complete: the decision table cannot be extracted", b.loc())
            return r
        site_vals.append((bb, var, vals))
    TYPES = (None, "all", "screen", "print")
    MODS = (None, "not", "only")
    n = bad = 0
    first_bad = []
    seen_sig = set()
    for c1 in (True, False):
        for m1 in MODS:
            for t1 in TYPES:
                for c2 in (True, False):
                    for m2 in MODS:
                        for t2 in TYPES:
                            for s0 in (True, False):
                                for s1 in (True, False):
                                    for lg in (True, False):
                                        alpha = {("CONJ", "self"): c1, ("CONJ", "other"): c2, ("TYPE_NONE", "self"): t1 is None, ("TYPE_NONE", "other"): t2 is None,
                                                 ("NEG", "self"): m1 == "not", ("NEG", "other"): m2 == "not", ("ONE_NEG",): (m1 == "not") != (m2 == "not"),
                                                 ("TYPE_EQ",): t1 == t2, ("ALL", "self"): t1 in (None, "all"), ("ALL", "other"): t2 in (None, "all"),
                                                 ("SUBSET", 0): s0, ("SUBSET", 1): s1, ("LEN_GT_SELF",): lg}
                                        outs = set()
                                        for bb, var, vals in site_vals:
                                            for v in vals:
                                                if all(alpha.get(k, val) == val for k, val in v.items() if k in alpha):
                                                    outs.add(var)
                                                    break
                                        want = _reference((c1, m1, t1), (c2, m2, t2), s0, lg, s1)
                                        n += 1
                                        if outs != {want}:
                                            bad += 1
                                            sig = (c1, m1, t1, c2, m2, t2, tuple(sorted(outs)))
                                            if len(first_bad) < 2 and sig not in seen_sig:
                                                seen_sig.add(sig)
                                                first_bad.append(("%s %s %s" % ("" if c1 else "[or]", m1 or "", t1 or "(no type)"), "%s %s %s" % ("" if c2 else "[or]", m2 or "", t2 or "(no type)"),
                                                                  "neg-subset=%s fewer-subset=%s" % (s0, s1), sorted(outs), want))
    r.floor("abstract query pairs evaluated", n, 4608)
    if bad == 0:
        r.ok("merge|decision-table", pairs=n, result_sites=len(sites), subset_tests=len(subset_sites))
    else:
        ex = "; ".join("`%s` merged with `%s` (%s): code %s, reference %s" % e for e in first_bad)
        r.violate("merge|decision-table", "MediaQuery::merge decides %d of %d abstract query pairs differently from the dart-sass reference, e.g. %s" % (bad, n, ex), b.loc())
    # one query negated, different concrete types: the *positive* query survives (its conditions are the ones cloned)
    npos = 0
    for c in b.calls():
        if an.tail2(c.callee) != "Clone::clone" or not c.args:
            continue
        src = an.trace_operand(b, c.args[0])
        if src.root[0] != "arg" or src.proj[-1:] != ("conditions",):
            continue
        vals, complete = psa.valuations_at(b, c.bb, classify, max_states=200000)
        if not complete or not vals or not all(v.get(("ONE_NEG",)) is True for v in vals):
            continue
        npos += 1
        who = "self" if src.root[1] == 1 else "other"
        key = "merge|one-negated|keeps-the-positive-query|%s" % who
        # cloning self.conditions is right exactly when self is the positive one
        want_neg_self = (who == "other")
        if all(v.get(("NEG", "self")) is want_neg_self for v in vals):
            r.ok(key)
        else:
            r.violate(key, "in the branch where exactly one query is negated and the types differ, MediaQuery::merge keeps %s.conditions on a path where %s is the *negated* "
                      "query: `@media not print {.c {@media screen and (color) {..}}}` must become `screen and (color)`, not `not print`" % (who, who), c.loc())
    r.floor("positive-query selections in the one-negated branch", npos, 2)
    # matches_all_types is `type is none or equals "all" ignoring case`
    mat = prog.one("ast::media::MediaQuery::matches_all_types")
    isn = [c for c in mat.calls() if an.tail2(c.callee) == "Option::is_none" and derives_from_field(mat, an.trace_operand(mat, c.args[0]), 1, "media_type")]
    cl = prog.closures_of(mat)
    lit_all = False
    for cb in cl:
        lower = any("to_ascii_lowercase" in (c.callee or "") or "eq_ignore_ascii_case" in (c.callee or "") for c in cb.calls())
        for c in cb.calls():
            for a in c.args:
                ap = an.trace_operand(cb, a)
                if ap.root[0] == "const" and str(ap.root[1]).strip("'\"") == "all" and lower:
                    lit_all = True
    if isn and lit_all:
        r.ok("matches_all_types|definition")
    else:
        r.violate("matches_all_types|definition", "MediaQuery::matches_all_types is no longer `media_type is none or equals \"all\" ignoring ASCII case` (is_none=%s, compares with lowercase \"all\"=%s)" % (bool(isn), lit_all), mat.loc())
    return r



def rule_d(ctx):
    r = RuleResult("C17-d", "a merged @media rule is hoisted past an enclosing @media only if *every* query of that enclosing rule is one of the merge sources "
                   "(dart-sass: node.queries.every(mergedSources.contains)); otherwise the outer condition would be dropped")
    prog = ctx.prog()
    v = prog.one("evaluate::visitor::Visitor::visit_media_rule")
    found = []
    for cb in prog.closures_of(v):
        for c in cb.calls():
            t2 = an.tail2(c.callee)
            if t2 in ("Iterator::all", "Iterator::any") and c.fn_args and "media::MediaQuery" in c.fn_args[0]:
                # the predicate closure must test membership in the merge sources
                inner = [x for x in prog.closures_of(cb)] + [x for x in prog.closures_of(v)]
                tests_sources = any(any(an.tail2(ic.callee) in ("IndexSet::contains", "HashSet::contains", "BTreeSet::contains") for ic in ib.calls()) for ib in inner)
                found.append((t2, tests_sources, c))
    if not found:
        raise AnchorMissing("visit_media_rule: the `through` predicate no longer iterates the enclosing rule's queries")
    for t2, tests_sources, c in found:
        key = "visit_media_rule|through|every-query-is-a-source"
        if t2 == "Iterator::all" and tests_sources:
            r.ok(key)
        else:
            r.violate(key, "the predicate that lets a merged rule pass an enclosing @media uses %s over the enclosing queries (membership test present: %s); it must hold for "
                      "all of them, otherwise `@media not print, (min-width: 600px) {... @media (min-width: 600px), (color) {@media (orientation: landscape) {..}}}` loses its outer condition"
                      % (t2, tests_sources), c.loc())
    return r


RULES = [rule_a, rule_b, rule_c, rule_d]
