"""C14 — list, map and string built-ins: registry, signature and code-point clauses."""
import json
import os

from ..core import RuleResult, VERIF
from ..facts import AnchorMissing, Operand
from .. import an, sl
from . import common, registry_tables as rt

GETTERS = ("ArgumentResult::get_err", "ArgumentResult::default_arg", "ArgumentResult::get", "ArgumentResult::default_named_arg", "ArgumentResult::get_named")


def alias_rule(ctx, rule_id, title, modules, floor):
    r = RuleResult(rule_id, title)
    prog = ctx.prog()
    spec = json.load(open(os.path.join(VERIF, "spec", "builtin_aliases.json")))
    try:
        g = rt.global_functions(prog)
    except sl.Unextractable as e:
        r.violate("GLOBAL_FUNCTIONS|shape", "cannot extract GLOBAL_FUNCTIONS as a registration table: %s" % e)
        return r
    gd = g.as_dict()
    for k in g.duplicates():
        r.violate("GLOBAL_FUNCTIONS|duplicate|%s" % k, "global function `%s` is registered twice (the later registration silently wins)" % k)
    n = 0
    for mod in modules:
        try:
            m = rt.module_table(prog, mod)
        except sl.Unextractable as e:
            r.violate("sass:%s|shape" % mod, "cannot extract the registration table of sass:%s: %s" % (mod, e))
            continue
        md = m.as_dict()
        for k in m.duplicates():
            r.violate("sass:%s|duplicate|%s" % (mod, k), "sass:%s registers `%s` twice" % (mod, k))
        for member, glob in sorted(spec[mod].items()):
            key = "sass:%s|%s" % (mod, member)
            if member not in md:
                r.violate(key, "sass:%s has no member `%s` (documented)" % (mod, member))
                continue
            if glob is None:
                r.ok(key, why="module-only member")
                continue
            n += 1
            if glob not in gd:
                r.violate(key, "global function `%s` (alias of %s.%s) is not registered" % (glob, mod, member))
            elif gd[glob] == md[member]:
                r.ok(key, alias=glob, fn=md[member][1].rsplit("::", 1)[-1])
            else:
                r.violate(key, "%s.%s is bound to %s but its global alias `%s` is bound to %s: they must behave identically" % (mod, member, md[member][1], glob, gd[glob][1]))
        # names never contain `_` (Identifier normalises `_` to `-`, so such a member could not be looked up)
        for k in md:
            if "_" in k:
                r.violate("sass:%s|underscore|%s" % (mod, k), "member `%s` of sass:%s is registered with an underscore" % (k, mod))
    for k in gd:
        if "_" in k:
            r.violate("global|underscore|%s" % k, "global function `%s` is registered with an underscore" % k)
    r.floor("module members with a global alias", n, floor)
    return r


def rule_a(ctx):
    return alias_rule(ctx, "C14-a", "sass:list / sass:map / sass:string members are bound to the same function items as their global aliases", ("list", "map", "string"), 24)


def rule_b(ctx):
    r = RuleResult("C14-b", "parameter names and positions of the list/map/string built-ins equal the documented signatures")
    prog = ctx.prog()
    spec = json.load(open(os.path.join(VERIF, "spec", "builtin_signatures.json")))
    n = 0
    for sig, params in sorted(spec.items()):
        if sig.startswith("_"):
            continue
        mod, fn = sig.split("::")
        cands = prog.find("builtin::functions::%s::%s" % (mod, fn)) or prog.find("builtin::modules::%s::%s" % (mod, fn))
        if len(cands) != 1:
            r.violate("%s|missing" % sig, "built-in %s not found" % sig)
            continue
        b = cands[0]
        positional = [p for p in params if not p.endswith("...")]
        variadic = any(p.endswith("...") for p in params)
        seen_pos = {}
        for fb in prog.family(b):
            for c in fb.calls():
                t2 = an.tail2(c.callee)
                if t2 in GETTERS:
                    pos = an.trace_operand(fb, c.args[1])
                    name = an.trace_operand(fb, c.args[2])
                    if name.root[0] != "const":
                        continue
                    nm = name.root[1]
                    if pos.root[0] == "const":
                        pi = int(pos.root[1])
                        n += 1
                        key = "%s|#%d" % (sig, pi)
                        if pi < len(positional):
                            if positional[pi] == nm:
                                r.ok(key, name=nm)
                            else:
                                r.violate(key, "%s reads argument #%d under the name $%s; the documented name is $%s" % (sig, pi, nm, positional[pi]), c.loc())
                        elif not variadic:
                            r.violate(key, "%s reads argument #%d ($%s) but is documented with %d parameter(s)" % (sig, pi, nm, len(positional)), c.loc())
                        if seen_pos.get(pi, nm) != nm:
                            r.violate(key + "|conflict", "%s reads position %d under two names ($%s, $%s)" % (sig, pi, seen_pos[pi], nm), c.loc())
                        seen_pos[pi] = nm
                    else:
                        # variable position (map-merge / map.set): the name must still be a documented one
                        pass
                elif t2 == "ArgumentResult::max_args":
                    v = an.trace_operand(fb, c.args[1])
                    if v.root[0] == "const":
                        n += 1
                        key = "%s|max_args" % sig
                        if variadic:
                            r.violate(key, "%s takes a rest parameter but limits its arguments to %s" % (sig, v.root[1]), c.loc())
                        elif int(v.root[1]) == len(positional):
                            r.ok(key, max=int(v.root[1]))
                        else:
                            r.violate(key, "%s accepts at most %s argument(s); documented: %d" % (sig, v.root[1], len(positional)), c.loc())
        for i, pname in enumerate(positional):
            if i not in seen_pos and not (variadic and i > 0):
                r.violate("%s|#%d|unread" % (sig, i), "%s never reads its documented parameter #%d ($%s)" % (sig, i, pname), b.loc())
    r.floor("signature facts", n, 60)
    return r


BYTE_LEVEL = {"str::len", "String::len", "str::as_bytes", "String::as_bytes", "str::bytes", "str::get", "String::truncate", "String::insert_str", "String::insert",
              "str::split_at", "String::split_off", "String::remove", "String::drain", "String::replace_range", "str::is_char_boundary", "str::rfind",
              "str::char_indices", "String::pop", "str::get_unchecked", "String::into_bytes", "str::as_ptr"}
CODEPOINT_FNS = ("str_length", "str_slice", "str_index", "str_insert")


def rule_c(ctx):
    r = RuleResult("C14-c", "string positions are code points: no byte-length / byte-index operation in str-length/slice/index/insert")
    prog = ctx.prog()
    n = 0
    for fn in CODEPOINT_FNS:
        b = prog.one("builtin::functions::string::" + fn)
        uses_chars = False
        for fb in prog.family(b):
            for c in fb.calls():
                t2 = an.tail2(c.callee)
                if t2 == "str::chars":
                    uses_chars = True
                if t2 in BYTE_LEVEL:
                    n += 1
                    r.violate("%s|%s" % (fn, t2), "%s uses the byte-level operation %s: positions must be counted in code points" % (fn, t2), c.loc())
                if t2 == "Index::index" and ("str" in " ".join(c.fn_args + c.res_args) or "String" in " ".join(c.fn_args + c.res_args)):
                    n += 1
                    # a byte-range slice is acceptable only as `s[0..find(..)]` feeding `.chars()` (prefix up to a match)
                    res_users = [c2 for c2 in fb.calls() if any(an.trace_operand(fb, a, through_calls=False).root == ("call", c.name(), c.bb) for a in c2.args)]
                    rng = an.trace_operand(fb, c.args[1])
                    ok = all(an.tail2(u.callee) == "str::chars" for u in res_users) and res_users
                    key = "%s|byte-range-slice" % fn
                    if ok:
                        r.ok(key, why="prefix up to a str::find match, only counted with chars()")
                    else:
                        r.violate(key, "%s slices the string by byte range and uses the slice for something other than counting its chars" % fn, c.loc())
                if t2 == "str::find":
                    n += 1
                    users = [c2 for c2 in fb.calls() if any("find" in repr(an.trace_operand(fb, a, through_calls=False)) for a in c2.args)]
                    r.ok("%s|find" % fn, why="byte offset of a match (always a char boundary)")
        key = "%s|counts-chars" % fn
        if uses_chars:
            r.ok(key)
        else:
            r.violate(key, "%s never iterates chars(): it cannot be counting code points" % fn, b.loc())
    r.floor("code-point functions", len(CODEPOINT_FNS), 4)
    return r



def rule_d(ctx):
    r = RuleResult("C14-d", "nested-key map walks (map.merge / map.set / deep-* with $keys...) move their cursor on every branch: in each loop over the keys, the map that "
                   "the next key is looked up in is reassigned on every path through the iteration (a missing or non-map entry continues in a fresh empty map)")
    from . import loops as _loops
    prog = ctx.prog()
    n = 0
    for b in prog.bodies.values():
        if b.crate != "grass_compiler" or "builtin/" not in b.file or "map" not in b.file.rsplit("/", 1)[-1]:
            continue
        nl = _loops.natural_loops(b)
        for h, blk in sorted(nl.items()):
            hc = b.call_at(h)
            if hc is None or an.tail2(hc.callee) != "Iterator::next":
                continue
            # cursor candidates: locals holding a (reference to a) SassMap that are the receiver of a lookup inside the loop
            lookups = [c for c in b.calls() if c.bb in blk and (c.name() or "").rsplit("::", 1)[-1] in ("get", "get_ref", "get_mut") and "map::SassMap" in (c.name() or "")]
            cursors = set()
            for c in lookups:
                ap = an.trace_operand(b, c.args[0], through_calls=False)
                if ap.root[0] == "local" and not ap.proj and "SassMap" in b.local_ty(ap.root[1]):
                    cursors.add(ap.root[1])
                elif c.args[0].place is not None:
                    for bb, i, d in b.defs_of(c.args[0].place.local):
                        if isinstance(d, dict) and d["k"] == "ref" and not [e for e in d["p"].get("p", []) if e["k"] != "deref"] and "SassMap" in b.local_ty(d["p"]["l"]):
                            cursors.add(d["p"]["l"])
                        if isinstance(d, dict) and d["k"] == "use" and "p" in d["op"] and not d["op"]["p"].get("p") and "SassMap" in b.local_ty(d["op"]["p"]["l"]):
                            cursors.add(d["op"]["p"]["l"])
            entry = None
            for sw, ap, adt, variants, rv in common.discr_switches(b):
                if ap.root[0] == "call" and ap.root[2] == h and not ap.proj:
                    for v, tb in b.term(sw)["ts"]:
                        if variants.get(v) == "Some":
                            entry = tb
            if entry is None:
                continue
            for L in sorted(cursors):
                assigns = {bb for bb, i, d in b.defs_of(L) if bb in blk}
                if not assigns:
                    continue  # not loop-carried
                n += 1
                key = "%s|cursor-advances-on-every-branch" % b.path
                skipped = entry not in assigns and an.reach_avoiding(b, entry, assigns, {h}) is not None
                if skipped:
                    r.violate(key, "%s: in the loop over the nested keys the current map is not reassigned on some path through an iteration, so after a missing or non-map "
                              "key the next key is looked up in the previous level's map instead of a fresh empty one" % b.path, hc.loc())
                else:
                    r.ok(key, assigns=len(assigns))
    r.floor("nested-key walk cursors", n, 1)
    return r



def rule_e(ctx):
    r = RuleResult("C14-e", "to-upper-case / to-lower-case convert ASCII letters only (documented): they use the ASCII case operations, never the Unicode "
                   "str::to_uppercase / to_lowercase (which also change the length, e.g. ß -> SS)")
    prog = ctx.prog()
    for fn, good, bad in (("to_upper_case", ("make_ascii_uppercase", "to_ascii_uppercase"), ("to_uppercase", "to_lowercase")),
                          ("to_lower_case", ("make_ascii_lowercase", "to_ascii_lowercase"), ("to_uppercase", "to_lowercase"))):
        b = prog.one("builtin::functions::string::" + fn)
        names = [(c.callee or "").rsplit("::", 1)[-1] for c in b.calls()]
        key = "%s|ascii-only" % fn
        if any(g in names for g in good) and not any(x in names for x in bad):
            r.ok(key)
        else:
            r.violate(key, "%s applies %s: non-ASCII letters are converted (and `ß` becomes `SS`), although Sass converts ASCII letters only" % (fn, [n for n in names if n in bad] or "no ASCII case operation"), b.loc())
    return r



def rule_f(ctx):
    r = RuleResult("C14-f", "zip() is as long as its shortest argument: the length is the minimum over all argument lists")
    prog = ctx.prog()
    b = prog.one("builtin::functions::list::zip")
    mins = [c for c in b.calls() if an.tail2(c.callee) in ("Iterator::min", "Ord::min", "cmp::min", "Iterator::min_by_key")]
    lens = [c for c in b.calls() if an.tail2(c.callee) == "Iterator::map" and len(c.args) == 2 and "len" in repr(an.trace_operand(b, c.args[1]))]
    key = "zip|length-is-minimum"
    if mins:
        r.ok(key, via=an.tail2(mins[0].callee))
    else:
        r.violate(key, "zip() no longer takes the minimum of the argument lengths: with a shorter later list the result is too long and its sub-lists are ragged "
                  "(`zip(a b c, 1 2)` must be `a 1, b 2`)", b.loc())
    return r


RULES = [rule_a, rule_b, rule_c, rule_d, rule_e, rule_f]
