"""Table-extraction helpers (P6) shared by rules."""
from ..facts import Operand, Place, Call, rv_operands
from .. import an


def _places_in_rv(rv):
    out = []
    if "p" in rv and isinstance(rv["p"], dict) and "l" in rv["p"]:
        out.append(Place(rv["p"]))
    for o in rv_operands(rv):
        if o.place is not None:
            out.append(o.place)
    return out


def local_reads(body, l):
    """Sites (block, kind) where local `l` is read (operand, borrowed, projected-from, call arg)."""
    out = []
    live = body.reachable()
    for b, bl in enumerate(body.blocks):
        if b not in live or bl.get("cleanup"):
            continue
        for s in bl["s"]:
            if s["k"] == "assign":
                for p in _places_in_rv(s["rv"]):
                    if p.local == l:
                        out.append((b, "stmt"))
                tp = Place(s["p"])
                if tp.local == l and tp.proj:
                    pass
                for e in tp.proj:
                    if e["k"] == "index" and e["i"] == l:
                        out.append((b, "index"))
        t = bl["t"]
        k = t["k"]
        if k == "call":
            for a in [Operand(x) for x in t["args"]] + [Operand(t["f"])]:
                if a.place is not None and a.place.local == l:
                    out.append((b, "call"))
        elif k == "switch":
            o = Operand(t["d"])
            if o.place is not None and o.place.local == l:
                out.append((b, "switch"))
        elif k == "assert":
            o = Operand(t["cond"])
            if o.place is not None and o.place.local == l:
                out.append((b, "assert"))
    return out


def local_is_used(body, l):
    return bool(local_reads(body, l))


STR_TEST_METHODS = ("starts_with", "ends_with", "contains", "eq", "ne", "eq_ignore_ascii_case")


def str_tests(body):
    """[(Call, method, literal)] for str tests against a string literal."""
    out = []
    for c in body.calls():
        n = c.name() or ""
        last = n.rsplit("::", 1)[-1]
        if last not in STR_TEST_METHODS:
            continue
        if not ("str" in n or "String" in n or "PartialEq" in (c.callee or "")):
            continue
        for a in c.args[1:]:
            ap = an.trace_operand(body, a)
            if ap.root[0] == "const" and isinstance(ap.root[1], str) and not ap.proj:
                out.append((c, last, ap.root[1]))
    return out


def switches_on_call(body, call):
    """[(switch block, polarity)] for switches whose condition is the boolean result of `call`."""
    out = []
    for b in range(len(body.blocks)):
        t = body.term(b)
        if t["k"] != "switch" or t["dty"] != "bool" or b in body._const_switch:
            continue
        for kind, obj, pol in an.cond_sources(body, Operand(t["d"])):
            if kind == "call" and obj.bb == call.bb:
                out.append((b, pol))
    return out


def bool_edge(body, sw, truth):
    """Target block of bool switch `sw` when the switched value == truth."""
    t = body.term(sw)
    for v, tb in t["ts"]:
        if (v == "0") == (not truth):
            return tb
    return t["else"]


def ret_consts_from(body, start, limit=64):
    """Set of constants assigned to the return place on paths from block `start`
    ('?' when a path reaches a non-constant assignment / branching before assigning)."""
    out = set()
    seen = set()
    st = [start]
    while st:
        b = st.pop()
        if b in seen:
            continue
        seen.add(b)
        if len(seen) > limit:
            out.add("?")
            break
        assigned = False
        for s in body.stmts(b):
            if s["k"] == "assign" and s["p"]["l"] == 0 and not s["p"].get("p"):
                rv = s["rv"]
                if rv["k"] == "use" and rv["op"]["k"] == "const":
                    out.add(Operand(rv["op"]).const_value())
                elif rv["k"] == "agg" and rv.get("agg") == "adt" and not rv.get("ops"):
                    out.add(rv["variant"])
                else:
                    out.add("?")
                assigned = True
        if assigned:
            continue
        t = body.term(b)
        if t["k"] == "switch" and b not in body._const_switch:
            out.add("?")
            continue
        if t["k"] == "call":
            c = body.call_at(b)
            if c is not None and c.dest is not None and c.dest.local == 0 and not c.dest.proj:
                out.add("?")
                continue
        if t["k"] == "return":
            out.add("?")
            continue
        st.extend(body.succ(b))
    return out


def ret_const_on_edge(body, call, truth):
    """Constant returned when boolean `call` result == truth (None if not a unique constant)."""
    vals = set()
    sws = switches_on_call(body, call)
    if not sws:
        # result returned directly (`a || b || last()`: the last test *is* the return value)
        if call.dest is not None and call.dest.local == 0 and not call.dest.proj:
            return truth
        return None
    for sw, pol in sws:
        tb = bool_edge(body, sw, truth if pol else not truth)
        vals |= ret_consts_from(body, tb)
    if len(vals) == 1:
        v = next(iter(vals))
        return None if v == "?" else v
    return None


def str_match_table(body):
    """`match s { "lit" => Variant, .. , _ => Default }` returning fieldless enum variants:
    {literal: variant, None: default}."""
    table = {}
    tests = [(c, m, lit) for c, m, lit in str_tests(body) if m == "eq"]
    tested_edges = set()
    for c, m, lit in tests:
        v = ret_const_on_edge(body, c, True)
        table[lit] = v
    # default: value on the path where every test is false
    if tests:
        last = tests[-1][0]
        v = ret_const_on_edge(body, last, False)
        if v is None:
            # default may be reached through several false edges; collect all ret consts not mapped
            allv = set()
            for b, i, p, rv, s in body.assignments():
                if p.local == 0 and not p.proj and rv["k"] == "agg" and rv.get("agg") == "adt" and not rv.get("ops"):
                    allv.add(rv["variant"])
            rest = allv - set(table.values())
            if len(rest) == 1:
                v = next(iter(rest))
        table[None] = v
    return table


def discr_switches(body):
    """[(switch block, AP of scrutinee, adt, {value: variant}, rvalue)] for switches on enum discriminants."""
    out = []
    for b in range(len(body.blocks)):
        t = body.term(b)
        if t["k"] != "switch":
            continue
        op = Operand(t["d"])
        for kind, obj, pol in an.cond_sources(body, op):
            if kind == "discr":
                ap, rv = obj
                out.append((b, ap, rv.get("adt"), rv.get("variants", {}), rv))
    return out


def exclusive_region(body, sw, target):
    """Blocks reachable from `target` that are not reachable from the other successors of `sw`."""
    others = [s for s in body.succ(sw) if s != target]
    mine = reach_from(body, target)
    for o in others:
        mine -= reach_from(body, o)
    return mine


def reach_from(body, start):
    seen = set()
    st = [start]
    sc = body.succs()
    while st:
        b = st.pop()
        if b in seen:
            continue
        seen.add(b)
        st.extend(sc[b])
    return seen


def switch_arms(body, sw, variants):
    """{variant-name or '_': target} for a discriminant switch."""
    t = body.term(sw)
    arms = {}
    used = set()
    for v, tb in t["ts"]:
        name = variants.get(v, v)
        arms[name] = tb
        used.add(v)
    rest = [n for v, n in variants.items() if v not in used]
    for n in rest:
        arms[n] = t["else"]
    arms["_"] = t["else"]
    return arms


def enum_switch_calls(body, adt_suffix=None):
    """For the first discriminant switch (optionally on an enum whose path ends with adt_suffix):
    {variant: set(callee names in that arm's exclusive region)}."""
    for sw, ap, adt, variants, rv in discr_switches(body):
        if adt_suffix and not (adt or "").endswith(adt_suffix):
            continue
        if adt and (adt.startswith("std::option::Option") or adt.startswith("std::result::Result") or adt.startswith("std::ops::ControlFlow")):
            if not adt_suffix:
                continue
        arms = switch_arms(body, sw, variants)
        out = {}
        for name, tb in arms.items():
            if name == "_":
                continue
            region = exclusive_region(body, sw, tb)
            names = set()
            for c in body.calls():
                if c.bb in region and c.name():
                    names.add(c.name())
            out[name] = names
        return out
    return {}


def consts_in(body):
    """All string constants appearing in a body."""
    out = set()
    for b, i, p, rv, s in body.assignments():
        for o in rv_operands(rv):
            if o.is_const() and isinstance(o.const_value(), str) and "str" in (o.const or {}):
                out.add(o.const_value())
    for c in body.calls():
        for a in c.args:
            if a.is_const() and "str" in (a.const or {}):
                out.add(a.const_value())
    return out


# --- decision-function summaries -----------------------------------------------------------


def enum_paths(body, max_paths=2000):
    """All acyclic entry->return paths (non-unwind edges). Each path is a list of blocks."""
    out = []
    sc = body.succs()

    def dfs(b, path, onpath):
        if len(out) >= max_paths:
            return
        path.append(b)
        onpath.add(b)
        t = body.term(b)
        if t["k"] == "return":
            out.append(list(path))
        else:
            for s in sc[b]:
                if s not in onpath:
                    dfs(s, path, onpath)
        path.pop()
        onpath.discard(b)

    import sys
    sys.setrecursionlimit(max(10000, sys.getrecursionlimit()))
    dfs(0, [], set())
    return out


def path_conditions(body, path):
    """[(switch block, kind, obj, fact)] along a path; fact = ('in', [values]) or ('not_in', [values])
    for the raw switched value, with polarity already folded for bools (fact is then True/False)."""
    conds = []
    for i, b in enumerate(path[:-1]):
        t = body.term(b)
        if t["k"] != "switch" or b in body._const_switch:
            continue
        nxt = path[i + 1]
        vals = [v for v, tb in t["ts"] if tb == nxt]
        if vals and nxt != t["else"]:
            fact = ("in", vals)
        elif nxt == t["else"] and not vals:
            fact = ("not_in", [v for v, _ in t["ts"]])
        else:
            fact = ("in_or_else", vals)
        for kind, obj, pol in an.cond_sources(body, Operand(t["d"])):
            if t["dty"] == "bool":
                if fact[0] == "in":
                    val = fact[1] != ["0"]
                elif fact[0] == "not_in":
                    val = "0" in fact[1]
                else:
                    val = None
                if val is not None and not pol:
                    val = not val
                conds.append((b, kind, obj, val))
            elif kind == "discr":
                ap, rv = obj
                names = rv.get("variants", {})
                if fact[0] == "in":
                    vs = {names.get(v, v) for v in fact[1]}
                elif fact[0] == "not_in":
                    vs = {n for v, n in names.items() if v not in fact[1]}
                else:
                    vs = None
                conds.append((b, "discr", ap, vs))
            else:
                conds.append((b, kind, obj, fact))
    return conds


def path_return(body, path):
    """What the return place holds at the end of a path: ('const', v) | ('variant', name) |
    ('call', Call) | ('copy', AP) | ('?',)"""
    last = ("?",)
    for b in path:
        for s in body.stmts(b):
            if s["k"] == "assign" and s["p"]["l"] == 0 and not s["p"].get("p"):
                rv = s["rv"]
                if rv["k"] == "use" and rv["op"]["k"] == "const":
                    last = ("const", Operand(rv["op"]).const_value())
                elif rv["k"] == "agg" and rv.get("agg") == "adt":
                    last = ("variant", rv["variant"], rv)
                elif rv["k"] == "use":
                    o = Operand(rv["op"])
                    # bool temp computed from a call?
                    srcs = an.cond_sources(body, o)
                    if len(srcs) == 1 and srcs[0][0] == "call":
                        last = ("call", srcs[0][1], srcs[0][2])
                    else:
                        last = ("copy", an.trace_operand(body, o))
                else:
                    last = ("?",)
        c = body.call_at(b)
        if c is not None and c.dest is not None and c.dest.local == 0 and not c.dest.proj and c.target in path:
            last = ("call", c, True)
    return last


def variant_ret_table(body, root=("arg", 1)):
    """`match <arg> { V1 | V2 => K1, ... }` -> {variant: returned-constant-or-variant}.
    Uses the first discriminant switch whose scrutinee is rooted at `root`."""
    for sw, ap, adt, variants, rv in discr_switches(body):
        if ap.root != root:
            continue
        arms = switch_arms(body, sw, variants)
        out = {}
        for name, tb in arms.items():
            if name == "_":
                continue
            vals = ret_consts_from(body, tb)
            out[name] = next(iter(vals)) if len(vals) == 1 else ("?", tuple(sorted(map(str, vals))))
        return out, adt
    return None, None


def variant_region_consts(body, root=("arg", 1)):
    """{variant: sorted string constants used only in that arm} for `match <arg> {..}`."""
    for sw, ap, adt, variants, rv in discr_switches(body):
        if ap.root != root:
            continue
        arms = switch_arms(body, sw, variants)
        out = {}
        for name, tb in arms.items():
            if name == "_":
                continue
            region = exclusive_region(body, sw, tb)
            ss = set()
            for c in body.calls():
                if c.bb in region:
                    for a in c.args:
                        ap2 = an.trace_operand(body, a)
                        if ap2.root[0] == "const" and isinstance(ap2.root[1], str):
                            ss.add(ap2.root[1])
            out[name] = sorted(ss)
        return out
    return None


def reach_from_avoiding(body, start, avoid):
    seen = set()
    st = [start]
    sc = body.succs()
    while st:
        b = st.pop()
        if b in seen or b in avoid:
            continue
        seen.add(b)
        st.extend(sc[b])
    return seen


def ret_consts_from_avoiding(body, start, avoid, limit=400):
    """Like ret_consts_from, but paths entering `avoid` blocks are not followed."""
    out = set()
    seen = set()
    st = [start]
    while st:
        b = st.pop()
        if b in seen or b in avoid:
            continue
        seen.add(b)
        if len(seen) > limit:
            out.add("?")
            break
        assigned = False
        for s in body.stmts(b):
            if s["k"] == "assign" and s["p"]["l"] == 0 and not s["p"].get("p"):
                rv = s["rv"]
                if rv["k"] == "use" and rv["op"]["k"] == "const":
                    out.add(Operand(rv["op"]).const_value())
                else:
                    out.add("?")
                assigned = True
        if assigned:
            continue
        t = body.term(b)
        if t["k"] == "call":
            c = body.call_at(b)
            if c is not None and c.dest is not None and c.dest.local == 0 and not c.dest.proj:
                out.add("?")
                continue
        if t["k"] == "return":
            continue
        st.extend(body.succ(b))
    return out
