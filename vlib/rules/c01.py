"""C01 — compilation is total: structural clauses a (error kinds at the raw() boundary),
b (guarded unit conversion), c (parser loops make progress), d (reachable todo!/unimplemented!/assert!)."""
from ..core import RuleResult
from ..facts import AnchorMissing, Operand
from .. import an, psa
from . import common, conv, errkind

ENTRY_POINTS = (
    "grass_compiler::from_path",
    "grass_compiler::from_string",
    "grass_compiler::parse_stylesheet",
    "grass_compiler::from_string_with_file_name",
    "grass::main",
)


def rule_a(ctx):
    r = RuleResult("C01-a", "only Raw errors can reach SassError::raw() (error-kind typestate over the call graph)")
    prog = ctx.prog()
    ek = errkind.get(prog)
    # P1: raw() has exactly one caller
    raw_callers = set()
    for b in prog.bodies.values():
        for c in b.calls():
            if c.name() == "grass_compiler::error::SassError::raw":
                raw_callers.add(b.path)
    for p in sorted(raw_callers):
        if p == errkind.RAW2PARSE:
            r.ok("raw()|caller|%s" % p)
        else:
            r.violate("raw()|caller|%s" % p, "SassError::raw (panics unless the error is Raw) is called from %s; the only reviewed caller is raw_to_parse_error" % p)
    if not raw_callers:
        raise AnchorMissing("no caller of SassError::raw found")
    n = 0
    for root, sites in sorted(ek.conv_sites.items()):
        for b, c, src in sites:
            if src is None:
                r.violate("%s|raw_to_parse_error|unknown-source" % b.path, "cannot determine which call's error is handed to raw_to_parse_error in %s" % b.path, c.loc())
                continue
            sc = prog.bodies[src[0]].call_at(src[1])
            targets = prog.call_targets(sc) or prog.indirect_targets(sc)
            if not targets:
                r.violate("%s|raw_to_parse_error|unresolved|%s" % (b.path, sc.name()), "error source %s of raw_to_parse_error in %s does not resolve to a local function" % (sc.name(), b.path), c.loc())
                continue
            for t in sorted(targets):
                n += 1
                kinds = ek.of(t)
                bad = {k: w for k, w in kinds.items() if k != "Raw"}
                if not bad:
                    r.ok("%s|%s" % (b.root, t), kinds=sorted(kinds))
                for k, chain in sorted(bad.items()):
                    origin = chain[-1]
                    ofn = _fn_of_witness(origin)
                    key = "%s|%s|%s|%s" % (b.root, t, k, ofn)
                    r.violate(
                        key,
                        "an error of kind %s can reach SassError::raw() (unreachable! panic) via raw_to_parse_error in %s: %s" % (k, b.root, "  <-  ".join(chain)),
                        c.loc(),
                        chain=chain,
                    )
    r.floor("raw_to_parse_error sources", n, 8)
    return r


def _fn_of_witness(w):
    # "... in <fn> at file:line"
    if " in " in w and " at " in w:
        return w.rsplit(" in ", 1)[1].rsplit(" at ", 1)[0]
    return w.split(" ")[0]


def rule_b(ctx):
    r, n = conv.run(ctx, "C01-b", "unit conversion (table index / conversion_factor().unwrap()) is only reached for pairs guarded by comparable() on every path")
    r.floor("conversion sites", n, 17)
    return r


# ---------------------------------------------------------------------------------------------
# C01-d

PANIC_MACROS = ("todo!", "unimplemented!", "panic!", "assert!", "assert_eq!", "assert_ne!")

# Reviewed sites that no static argument in reach can discharge (value invariants / dyn dispatch), one reason each.
REVIEWED = {
    "<grass_compiler::parse::sass::SassParser as grass_compiler::parse::stylesheet::StylesheetParser>::parse_statements|assert_eq!":
        "assert_eq!(indentation, 0): dart-sass has the same assertion; rests on the value invariant that every statement parser "
        "leaves the next indentation <= the current one (expect_statement_separator errors otherwise). No failing input found.",
    "<grass_compiler::utils::map_view::UnprefixedMapView<V, T> as grass_compiler::utils::map_view::MapView>::iter|unimplemented!":
        "reachable only through `dyn MapView` dispatch (over-approximated); configuration views are never iterated. No failing input found.",
    "<grass_compiler::utils::map_view::PrefixedMapView<V, T> as grass_compiler::utils::map_view::MapView>::iter|unimplemented!":
        "reachable only through `dyn MapView` dispatch; module-variables over a prefixed forward yields () without iterating. No failing input found.",
    "<grass_compiler::utils::map_view::LimitedMapView<V, T> as grass_compiler::utils::map_view::MapView>::iter|unimplemented!":
        "reachable only through `dyn MapView` dispatch; limited views are built for configuration and shadowing only. No failing input found.",
    "<grass_compiler::utils::map_view::MergedMapView<V> as grass_compiler::utils::map_view::MapView>::remove|unimplemented!":
        "reachable only through `dyn MapView` dispatch; remove is used for configuration maps, which are never merged views. No failing input found.",
}


def panic_sites(prog):
    out = []
    for b in prog.bodies.values():
        if b.crate not in ("grass_compiler", "grass", "grass#bin"):
            continue
        for c in b.calls():
            n = c.name() or ""
            if not (n.startswith("std::panicking::") or n.startswith("std::panic")):
                continue
            exp = c.span.get("exp", [])
            mac = exp[-1] if exp else None
            if mac in PANIC_MACROS:
                out.append((b, c, mac))
    return out


def rule_d(ctx):
    r = RuleResult("C01-d", "explicitly unhandled paths (todo!/unimplemented!/panic!/assert!) are unreachable, guarded, or reviewed")
    prog = ctx.prog()
    sites = panic_sites(prog)
    roots = [p for p in ENTRY_POINTS if p in prog.bodies]
    # every public function of the library is an entry point for reachability
    reach, parent = prog.reachable_from(roots)
    for b, c, mac in sites:
        key = "%s|%s" % (b.path, mac)
        fn = b.root
        # 1. unreachable in the call graph
        if fn not in reach:
            r.ok(key, why="unreachable from the entry points in the (over-approximated) call graph")
            continue
        # 2. structural discharge rules
        d = _discharge(prog, b, c, mac)
        if d is True:
            r.ok(key, why="guard discharges the site")
            continue
        if key in REVIEWED:
            r.undecide(key, "reviewed, not decidable statically: " + REVIEWED[key], c.loc())
            continue
        chain = []
        x = fn
        while x in parent and len(chain) < 12:
            chain.append(x)
            x = parent[x]
        chain.append(x)
        r.violate(key, "%s in %s is reachable from the entry points (%s)%s" % (mac, b.path, " <- ".join(chain), ("; " + d) if isinstance(d, str) else ""), c.loc())
    r.floor("panic-macro sites inventoried", len(sites), 8)
    # inventory (unarmed): unwrap/expect/unreachable/index sites
    inv = {"unwrap/expect": 0, "unreachable!": 0, "index": 0}
    for b in prog.bodies.values():
        if b.crate != "grass_compiler":
            continue
        for c in b.calls():
            t2 = an.tail2(c.callee)
            if t2 in ("Option::unwrap", "Option::expect", "Result::unwrap", "Result::expect"):
                inv["unwrap/expect"] += 1
            elif (c.name() or "").startswith("std::panicking::") and (c.span.get("exp") or [None])[-1] == "unreachable!":
                inv["unreachable!"] += 1
            elif t2 in ("Index::index", "IndexMut::index_mut"):
                inv["index"] += 1
    r.note("unarmed inventory (value invariants, not decided): %s" % inv)
    return r


def _discharge(prog, b, c, mac):
    """True if a structural argument shows the site cannot execute; str = extra diagnostic."""
    name = b.path
    # (i) every call site of the enclosing function is guarded so that the panicking arm is excluded
    if name.endswith("ComplexSelectorComponent::resolve_parent_selectors"):
        return _guarded_callers(prog, b, "ComplexSelectorComponent::is_compound", "Compound")
    if name.endswith("ArgumentResult::min_args"):
        return _min_args_callers(prog, b, c)
    # (ii) `while toks.peek().is_some() { match toks.peek() { .. None => todo!() } }`
    return _peek_contradiction(prog, b, c)


def _guarded_callers(prog, fn_body, guard_suffix, variant):
    # guard is `matches!(self, Variant)`
    g = prog.one(guard_suffix)
    tab, adt = common.variant_ret_table(g)
    if not tab or any((v is True) != (k == variant) for k, v in tab.items()):
        return "guard %s is not `matches!(self, %s)`" % (guard_suffix, variant)
    callers = conv.callers_of(prog, fn_body)
    if not callers:
        return True
    for cc in callers:
        body = cc.body
        recv = an.trace_operand(body, cc.args[0])

        def classify(kind, obj, bd, sw, recv=recv):
            if kind == "call" and obj.name() == g.path:
                x = an.trace_operand(bd, obj.args[0])
                if x == recv:
                    return psa.Pred(("GUARD",), [x]), False
            return None

        vals, complete = psa.valuations_at(body, cc.bb, classify)
        if not complete or any(v.get(("GUARD",)) is not True for v in vals):
            return "call in %s at %s is not guarded by %s" % (body.path, cc.loc(), guard_suffix)
    return True


def _min_args_callers(prog, fn_body, c):
    # the todo!() arm is the default of `match min {1,2,3}`: every caller must pass one of the listed constants
    handled = set()
    for bb in range(len(fn_body.blocks)):
        t = fn_body.term(bb)
        if t["k"] == "switch" and t["dty"] == "usize":
            op = Operand(t["d"])
            if an.trace_operand(fn_body, op).root == ("arg", 2):
                handled = {int(v) for v, _ in t["ts"]}
    if not handled:
        return "min_args: cannot find the match on `min`"
    for cc in conv.callers_of(prog, fn_body):
        ap = an.trace_operand(cc.body, cc.args[1])
        if ap.root[0] != "const" or int(ap.root[1]) not in handled:
            return "min_args(%r) in %s has no message arm" % (ap, cc.body.path)
    return True


def _peek_contradiction(prog, b, c):
    """The site is unreachable if every path to it carries contradictory facts about toks.peek()."""

    def classify(kind, obj, bd, sw):
        if kind == "call" and an.tail2(obj.callee) in ("Option::is_some", "Option::is_none"):
            ap = an.trace_operand(bd, obj.args[0], through_calls=False)
            if ap.root[0] == "call" and ap.root[1].endswith("Lexer::peek"):
                pc = bd.call_at(ap.root[2])
                recv = an.trace_operand(bd, pc.args[0])
                return psa.Pred(("PEEK", recv.key()), [recv]), an.tail2(obj.callee) == "Option::is_none"
        if kind == "discr":
            ap, rv = obj
            base = an.AP(ap.root, ap.proj[:-1]) if ap.proj and ap.proj[-1] == "<discr>" else ap
            if base.root[0] == "call" and base.root[1].endswith("Lexer::peek") and not base.proj:
                pc = bd.call_at(base.root[2])
                recv = an.trace_operand(bd, pc.args[0])
                return psa.Pred(("PEEK", recv.key()), [recv], variant_true="Some"), False
        return None

    vals, complete = psa.valuations_at(b, c.bb, classify)
    if complete and not vals:
        return True
    return None


# ---------------------------------------------------------------------------------------------

def rule_c(ctx):
    from . import loops
    return loops.rule(ctx)


# ---------------------------------------------------------------------------------------------
# Every failure funnels through crates/compiler/src/error.rs (conversion into SassError, kind(), Display).  A panic there turns an
# error into a crash, so the panic-capable operations of that file are an exact, reviewed inventory.
ERROR_PATH_REVIEWED = {
    ("<grass_compiler::error::SassError as std::fmt::Display>::fmt", "panic"): (1, "unreachable!() for the Raw kind: C19-a shows no Raw error reaches Display"),
    ("grass_compiler::error::SassError::kind", "panic"): (1, "unreachable!() for the Raw kind (C19-a)"),
    ("grass_compiler::error::SassError::raw", "panic"): (1, "raw() on a non-Raw error: C01-a shows only Raw errors reach it"),
    ("grass_compiler::error::<impl std::convert::From<std::string::FromUtf8Error> for std::boxed::Box<grass_compiler::error::SassError>>::from", "bounds-check"):
        (1, "as_bytes()[0] of the rejected input: from_utf8 fails only on a non-empty buffer"),
}


def rule_e(ctx):
    r = RuleResult("C01-e", "the error path itself cannot panic: the panic-capable operations (panics, bounds checks, slice indexing, unwrap/expect, division) in "
                   "error.rs are exactly the four reviewed ones")
    prog = ctx.prog()
    found = {}
    nb = 0
    for b in prog.bodies.values():
        if b.crate != "grass_compiler" or not b.file.endswith("compiler/src/error.rs"):
            continue
        nb += 1
        live = b.reachable()
        for bb in range(len(b.blocks)):
            if bb not in live:
                continue
            t = b.term(bb)
            kind = None
            if t["k"] == "assert":
                msg = str(t.get("msg") or t.get("kind") or "")
                kind = "bounds-check" if "bound" in msg.lower() else "assert:" + msg[:24]
            elif t["k"] == "call":
                c = b.call_at(bb)
                t2 = an.tail2(c.callee) or ""
                cal = c.callee or ""
                if "panicking::" in cal or "unreachable" in cal:
                    kind = "panic"
                elif t2 in ("Index::index", "IndexMut::index_mut"):
                    kind = "slice-index"
                elif t2 in ("Option::unwrap", "Option::expect", "Result::unwrap", "Result::expect", "Result::unwrap_err"):
                    kind = t2
            if kind:
                found.setdefault((b.path, kind), []).append("%s:%d" % (b.file, t["span"]["l"]))
    for key, locs in sorted(found.items()):
        k = "%s|%s" % key
        rev = ERROR_PATH_REVIEWED.get(key)
        if rev and len(locs) <= rev[0]:
            r.ok(k, reviewed=rev[1])
        else:
            r.violate(k, "%s contains %d `%s` operation(s) (%s) that are not in the reviewed inventory of the error path: an error being built or rendered can now "
                      "panic instead of being reported" % (key[0], len(locs), key[1], ", ".join(locs)), locs[0])
    for key in sorted(set(ERROR_PATH_REVIEWED) - set(found)):
        r.note("reviewed entry no longer present: %s %s" % key)
    r.floor("bodies of error.rs examined", nb, 12)
    return r


def rule_f(ctx):
    r = RuleResult("C01-f", "indented-syntax comments: the distance `current_indentation - parent_indentation` used as a padding length cannot underflow — it is a "
                   "saturating/checked subtraction, or every read_indentation() in the function happens only after peek_indentation() >= parent_indentation was established")
    prog = ctx.prog()
    n = 0
    for b in prog.bodies.values():
        if b.crate != "grass_compiler" or not b.file.endswith("parse/sass.rs") or b.is_closure():
            continue
        # plain usize subtractions whose left operand is the parser's current_indentation field
        subs = []
        for bb, i, pl, rv, st in b.assignments():
            if rv.get("k") == "binop" and rv["op"].startswith("Sub"):
                a = an.trace_operand(b, Operand(rv["a"]))
                if a.root[0] == "arg" and a.proj and a.proj[-1] == "current_indentation":
                    subs.append((bb, st, an.trace_operand(b, Operand(rv["b"]))))
        if not subs:
            continue
        reads = [c for c in b.calls() if (c.name() or "").endswith("SassParser::read_indentation")]

        def classify(kind, obj, body, sw):
            if kind == "binop" and obj[0] in ("Lt", "Le", "Gt", "Ge", "Eq", "Ne"):
                x, y = an.trace_operand(body, obj[1]), an.trace_operand(body, obj[2])
                def is_peek(t):
                    return t.root[0] == "call" and t.root[1].endswith("SassParser::peek_indentation")
                op = obj[0]
                if is_peek(y) and not is_peek(x):
                    x, y = y, x
                    op = {"Lt": "Gt", "Gt": "Lt", "Le": "Ge", "Ge": "Le"}.get(op, op)
                if is_peek(x) and not is_peek(y):
                    return psa.Pred(("PEEK", op, repr(y)), []), False
            return None

        for bb, st, rhs in subs:
            n += 1
            key = "%s|current_indentation-minus-%s" % (b.path, "parent" if rhs.root[0] != "const" else "const")
            where = "%s:%d" % (b.file, st["span"]["l"])
            bad = []
            for c in reads:
                vals, complete = psa.valuations_at(b, c.bb, classify)
                ok = complete and bool(vals)
                for v in vals:
                    facts = {k[1]: val for k, val in v.items() if k[0] == "PEEK" and k[2] == repr(rhs)}
                    ge = facts.get("Lt") is False or facts.get("Ge") is True or facts.get("Eq") is True or facts.get("Gt") is True or facts.get("Le") is False
                    if not ge:
                        ok = False
                if not ok:
                    bad.append(c.loc())
            if not bad:
                r.ok(key, how="every read_indentation() is preceded by peek_indentation() >= parent", reads=len(reads))
            else:
                r.violate(key, "%s subtracts the comment's own indentation from current_indentation (%s) although read_indentation() at %s can run when the next line is "
                          "indented less than the comment: the usize subtraction underflows (panic in debug builds, an endless padding loop in release builds)"
                          % (b.path, where, ", ".join(bad[:3])), where)
    r.floor("current_indentation subtractions examined", n, 1)
    return r


def rule_g(ctx):
    r = RuleResult("C01-g", "re-lexed interpolated text: Lexer::new_from_string marks the lexer as expanded by comparing the text's *byte* length with the source span "
                   "(token positions are byte offsets; with a character/token count a multi-byte text overruns Span::subspan, which asserts)")
    prog = ctx.prog()
    b = prog.one("lexer::Lexer::new_from_string")
    news = [c for c in b.calls() if (c.name() or "").endswith("lexer::Lexer::new")]
    if len(news) != 1:
        raise AnchorMissing("Lexer::new_from_string: expected one call of Lexer::new")
    flag = news[0].args[2]
    ok = False
    why = "?"
    if flag.place is not None:
        for bb, i, d in b.defs_of(flag.place.local):
            src = d
            if isinstance(d, dict) and d["k"] == "use" and "p" in d["op"]:
                ds = b.defs_of(d["op"]["p"]["l"])
                src = ds[0][2] if len(ds) == 1 else d
            if isinstance(src, dict) and src.get("k") == "binop" and src["op"] in ("Gt", "Lt", "Ge", "Le"):
                x, y = an.trace_operand(b, Operand(src["a"])), an.trace_operand(b, Operand(src["b"]))
                sides = {repr(x).split("@")[0], repr(y).split("@")[0]}
                why = sorted(sides)
                left = x if "Span::len" not in repr(x) and "len()" in repr(x) else y
                lc = b.call_at(left.root[2]) if left.root[0] == "call" else None
                if lc is not None and (lc.callee or "").endswith("str::<impl str>::len") and an.trace_operand(b, lc.args[0]).root == ("arg", 1):
                    ok = any("Span::len" in s_ or "span::Span::len" in s_ or "len()" in s_ for s_ in sides)
    if ok:
        r.ok("new_from_string|is_expanded-compares-bytes")
    else:
        r.violate("new_from_string|is_expanded-compares-bytes", "Lexer::new_from_string no longer derives is_expanded from `s.len()` (bytes) against the span length (compared: %s): "
                  "for multi-byte interpolated text whose character count fits the span but whose byte length does not, span lookups hit codemap's subspan assertion and panic" % (why,), b.loc())
    return r


import os as _os

RULES = [rule_a, rule_b, rule_d]
if _os.path.exists(_os.path.join(_os.path.dirname(__file__), "loops.py")):
    RULES = [rule_a, rule_b, rule_c, rule_d, rule_e, rule_f, rule_g]
