"""C16 — calc()/min()/max()/clamp() simplification (crash-freedom and printing-table clauses)."""
import itertools
import random

from ..core import RuleResult
from ..facts import AnchorMissing, Operand, Place
from .. import an, sl
from . import common, conv

OPS = ("Plus", "Minus", "Mul", "Div")
SYM = {"Plus": "+", "Minus": "-", "Mul": "*", "Div": "/"}


def rule_a(ctx):
    r, n = conv.run(ctx, "C16-a", "no calculation simplification converts units without a comparability guard on the same pair", only_files=("value/calculation.rs",))
    r.floor("conversion sites in calculation.rs", n, 4)
    return r


def needs_parens(outer, inner):
    """E3 (real arithmetic): does `a outer (b inner c)` change value when the parentheses are dropped and the text is
    re-read with the usual precedence and left associativity?  Decided on random rationals."""
    rnd = random.Random(12345)
    f = {"Plus": lambda x, y: x + y, "Minus": lambda x, y: x - y, "Mul": lambda x, y: x * y, "Div": lambda x, y: x / y}
    prec = {"Plus": 1, "Minus": 1, "Mul": 2, "Div": 2}
    for _ in range(20):
        a, b, c = (rnd.uniform(1.5, 9.5) for _ in range(3))
        with_p = f[outer](a, f[inner](b, c))
        # without parentheses: a outer b inner c
        if prec[inner] > prec[outer]:
            without = f[outer](a, f[inner](b, c))
        else:
            without = f[inner](f[outer](a, b), c)
        if abs(with_p - without) > 1e-9 * max(1.0, abs(with_p)):
            return True
    return False


def decision_table(body, names, argn_a=1, argn_b=2):
    """Truth table of a bool function whose conditions are `arg == CONST` comparisons on two enum parameters."""
    paths = common.enum_paths(body, 400)
    summ = [(common.path_conditions(body, p), common.path_return(body, p)) for p in paths]

    def val(ap, env):
        if ap.root[0] == "arg" and not ap.proj:
            return env[ap.root[1]]
        if ap.root[0] == "const" and isinstance(ap.root[1], str) and "::" in ap.root[1]:
            return ap.root[1].split("::", 1)[1]
        raise sl.Unextractable("unrecognised operand %r" % (ap,))

    def call_val(c, env):
        t2 = an.tail2(c.callee)
        if t2 in ("PartialEq::eq", "PartialEq::ne"):
            x = val(an.trace_operand(body, c.args[0]), env)
            y = val(an.trace_operand(body, c.args[1]), env)
            return (x == y) if t2.endswith("eq") else (x != y)
        raise sl.Unextractable("unrecognised call %s" % c.name())

    T = {}
    for a in names:
        for b in names:
            env = {argn_a: a, argn_b: b}
            res = None
            for conds, ret in summ:
                ok = True
                for sw, kind, obj, fact in conds:
                    if kind == "call":
                        if call_val(obj, env) != fact:
                            ok = False
                            break
                    elif kind == "discr":
                        base = an.AP(obj.root, obj.proj[:-1]) if obj.proj and obj.proj[-1] == "<discr>" else obj
                        if val(base, env) not in fact:
                            ok = False
                            break
                    else:
                        raise sl.Unextractable("unrecognised condition kind %s" % kind)
                if not ok:
                    continue
                if ret[0] == "const":
                    v = bool(ret[1])
                elif ret[0] == "call":
                    v = call_val(ret[1], env)
                    if ret[2] is False:
                        v = not v
                else:
                    raise sl.Unextractable("unrecognised return %r" % (ret[:2],))
                if res is not None and res != v:
                    raise sl.Unextractable("paths disagree for (%s, %s)" % (a, b))
                res = v
            if res is None:
                raise sl.Unextractable("no path for (%s, %s)" % (a, b))
            T[(a, b)] = res
    return T


def rule_b(ctx):
    r = RuleResult("C16-b", "parenthesize_calculation_rhs(outer, inner) equals `a outer (b inner c)` needing parentheses under real arithmetic")
    prog = ctx.prog()
    b = prog.one("CalculationArg::parenthesize_calculation_rhs")
    try:
        T = decision_table(b, OPS)
    except sl.Unextractable as e:
        r.violate("parenthesize_calculation_rhs|shape", "cannot extract the decision table of parenthesize_calculation_rhs: %s" % e, b.loc())
        return r
    for o in OPS:
        for i in OPS:
            key = "rhs|%s|%s" % (o, i)
            want = needs_parens(o, i)
            if T[(o, i)] == want:
                r.ok(key, parens=want)
            elif want:
                r.violate(key, "`a %s (b %s c)` is printed without parentheses, which changes its value" % (SYM[o], SYM[i]), b.loc())
            else:
                r.violate(key, "`a %s (b %s c)` is printed with superfluous parentheses (dart-sass omits them)" % (SYM[o], SYM[i]), b.loc())
    r.floor("operator pairs", len(T), 16)
    # the serializer consults it for the right operand and precedence() for the left one
    w = prog.one("Serializer::write_calculation_arg")
    uses = [c for c in w.calls() if (c.name() or "").endswith("parenthesize_calculation_rhs")]
    prec = [c for c in w.calls() if (c.name() or "").endswith("BinaryOp::precedence")]
    if uses:
        c = uses[0]
        outer = repr(an.trace_operand(w, c.args[0]))
        inner = repr(an.trace_operand(w, c.args[1]))
        if "rhs" in inner and "rhs" not in outer and ".op" in outer:
            r.ok("write_calculation_arg|rhs-uses-table", outer=outer, inner=inner)
        else:
            r.violate("write_calculation_arg|rhs-args", "parenthesize_calculation_rhs is called with (outer=%s, inner=%s); expected (this operation's op, the right operand's op)" % (outer, inner), c.loc())
    else:
        r.violate("write_calculation_arg|rhs-uses-table", "write_calculation_arg no longer consults parenthesize_calculation_rhs", w.loc())
    if len(prec) >= 2:
        # paren_left = lhs.op.precedence() < op.precedence()
        lt = [(rv, s) for bb, i, pl, rv, s in w.assignments() if rv["k"] == "binop" and rv["op"] == "Lt"]
        ok = False
        for rv, s in lt:
            x = repr(an.trace_operand(w, Operand(rv["a"])))
            y = repr(an.trace_operand(w, Operand(rv["b"])))
            if "precedence" in x and "precedence" in y:
                cx = w.call_at(an.trace_operand(w, Operand(rv["a"])).root[2])
                cy = w.call_at(an.trace_operand(w, Operand(rv["b"])).root[2])
                ax = repr(an.trace_operand(w, cx.args[0]))
                ay = repr(an.trace_operand(w, cy.args[0]))
                if "lhs" in ax and "lhs" not in ay:
                    ok = True
        if ok:
            r.ok("write_calculation_arg|lhs-precedence")
        else:
            r.violate("write_calculation_arg|lhs-precedence", "the left operand is not parenthesised by `lhs.op.precedence() < op.precedence()`", w.loc())
    else:
        r.violate("write_calculation_arg|lhs-precedence", "write_calculation_arg no longer compares precedences for the left operand", w.loc())
    return r


def rule_c(ctx):
    r = RuleResult("C16-c", "a negative right operand flips + to - (and - to +) and is negated in the same branch")
    prog = ctx.prog()
    b = prog.one("SassCalculation::operate_internal")
    neg = [c for c in b.calls() if an.tail2(c.callee) in ("Number::is_negative", "f64::is_sign_negative")]
    if not neg:
        raise AnchorMissing("operate_internal: no is_negative test")
    nc = neg[0]
    sws = common.switches_on_call(b, nc)
    if not sws:
        raise AnchorMissing("operate_internal: is_negative result is not branched on")
    sw, pol = sws[0]
    tb = common.bool_edge(b, sw, pol)
    region = common.exclusive_region(b, sw, tb) or {tb}
    # negation: n.num.0 *= -1.0
    negated = False
    for bb, i, pl, rv, s in b.assignments():
        if bb in region and rv["k"] == "binop" and rv["op"].startswith("Mul"):
            k = an.trace_operand(b, Operand(rv["b"]))
            k2 = an.trace_operand(b, Operand(rv["a"]))
            if ("const", "-1.0") in (k.root, k2.root):
                negated = True
    if negated:
        r.ok("operate_internal|negates-number")
    else:
        r.violate("operate_internal|negates-number", "the negative right operand is not multiplied by -1 in the branch that flips the operator", nc.loc())
    # operator flip: op assigned Minus when op == Plus, Plus otherwise, inside the region
    assigns = []
    # locals whose value is moved into `op` (_1) inside the region: `op = if .. { Minus } else { Plus }`
    feeds = {1}
    for bb, i, pl, rv, s in b.assignments():
        if bb in region and pl.local == 1 and not pl.proj and rv["k"] == "use" and rv["op"]["k"] in ("move", "copy"):
            feeds.add(rv["op"]["p"]["l"])
    for bb, i, pl, rv, s in b.assignments():
        if bb in region and rv["k"] == "agg" and rv.get("adt", "").endswith("common::BinaryOp") and pl.local in feeds and not pl.proj:
            facts_at = an.bool_guard_calls(b, bb)
            cond = None
            for kind, obj, truth, d in facts_at:
                if kind == "call" and an.tail2(obj.callee) in ("PartialEq::eq", "PartialEq::ne") and d in region:
                    x = an.trace_operand(b, obj.args[0])
                    y = an.trace_operand(b, obj.args[1])
                    cst = [z.root[1] for z in (x, y) if z.root[0] == "const"]
                    if cst:
                        t = truth if an.tail2(obj.callee).endswith("eq") else not truth
                        cond = (cst[0], t)
            assigns.append((cond, rv["variant"]))
    want = {(("BinaryOp::Plus", True), "Minus"), (("BinaryOp::Plus", False), "Plus")}
    if set(assigns) == want:
        r.ok("operate_internal|flip", table=sorted(map(str, assigns)))
    else:
        r.violate("operate_internal|flip", "operator flip for a negative right operand is %s, expected Plus->Minus and Minus->Plus" % sorted(map(str, assigns)), nc.loc())
    return r


def rule_d(ctx):
    r = RuleResult("C16-d", "unsimplified min/max/clamp and +/- operations are only built after verify_compatible_numbers succeeded")
    prog = ctx.prog()
    n = 0
    for fn in ("SassCalculation::min", "SassCalculation::max", "SassCalculation::clamp"):
        b = prog.one("value::calculation::" + fn)
        ver = [c for c in b.calls() if (c.name() or "").endswith("verify_compatible_numbers")]
        for bb, i, pl, rv, s in b.assignments():
            if rv["k"] == "agg" and rv.get("adt", "").endswith("calculation::SassCalculation"):
                n += 1
                key = "%s|unsimplified-after-verify" % fn
                if any(b.dominates(v.bb, bb) for v in ver):
                    r.ok(key)
                else:
                    r.violate(key, "%s builds an unsimplified calculation without verify_compatible_numbers: provably incompatible units are not rejected" % fn, "%s:%d" % (b.file, s["span"]["l"]))
    b = prog.one("SassCalculation::operate_internal")
    ver = [c for c in b.calls() if (c.name() or "").endswith("verify_compatible_numbers")]
    for bb, i, pl, rv, s in b.assignments():
        if rv["k"] == "agg" and rv.get("adt", "").endswith("CalculationArg") and rv.get("variant") == "Operation":
            facts_at = an.bool_guard_calls(b, bb)
            plus_minus = False
            for kind, obj, truth, d in facts_at:
                if kind == "call" and an.tail2(obj.callee) == "PartialEq::eq" and truth:
                    cst = [z.root[1] for z in (an.trace_operand(b, obj.args[0]), an.trace_operand(b, obj.args[1])) if z.root[0] == "const"]
                    if cst and cst[0] in ("BinaryOp::Plus", "BinaryOp::Minus"):
                        plus_minus = True
            # the +/- construction is the one dominated by the is_negative handling / verify call region
            in_pm = plus_minus or any(b.dominates(v.bb, bb) for v in ver)
            simplify_off = any(kind == "place" and repr(obj) == "arg5" and truth is False for kind, obj, truth, d in facts_at)
            if simplify_off:
                continue
            if in_pm:
                n += 1
                key = "operate_internal|+/- operation after verify"
                if any(b.dominates(v.bb, bb) for v in ver):
                    r.ok(key)
                else:
                    r.violate(key, "operate_internal builds an unsimplified +/- operation without verify_compatible_numbers", "%s:%d" % (b.file, s["span"]["l"]))
    if not ver:
        r.violate("operate_internal|verify", "operate_internal never calls verify_compatible_numbers", b.loc())
    r.floor("unsimplified constructions", n, 4)
    return r



def rule_e(ctx):
    """Conversion direction inside the calculation folding code (shared with C08-d, restricted to value/calculation.rs)."""
    from . import c08
    full = c08.rule_d(ctx)
    r = RuleResult("C16-e", "min/max/clamp folding converts each operand from its own unit to the unit of the operand it is compared with")
    for i in full.instances:
        if "value::calculation" in i.get("key", ""):
            r.instances.append(i)
    for v in full.violations:
        if "value::calculation" in v.key:
            v.rule = "C16-e"
            r.violations.append(v)
    r.floor("direction obligations in calculation.rs", len(r.instances), 6)
    return r



def rule_f(ctx):
    r = RuleResult("C16-f", "verify_compatible_numbers compares *every pair* of numeric arguments (possible compatibility is not transitive: %, unknown and unitless numbers are "
                   "compatible with everything): the has_possibly_compatible_units test sits inside two nested loops over the arguments")
    from . import loops as _loops
    prog = ctx.prog()
    b = prog.one("value::calculation::SassCalculation::verify_compatible_numbers")
    nl = _loops.natural_loops(b)
    cs = [c for c in b.calls() if (c.name() or "").endswith("has_possibly_compatible_units")]
    if not cs:
        raise AnchorMissing("verify_compatible_numbers: no has_possibly_compatible_units test")
    for c in cs:
        depth = sum(1 for h, blk in nl.items() if c.bb in blk)
        key = "verify_compatible_numbers|all-pairs"
        if depth >= 2:
            r.ok(key, loop_depth=depth)
        else:
            r.violate(key, "verify_compatible_numbers tests compatibility at loop depth %d (not for every pair): `min(10%%, 1px, 1s)` is accepted because both lengths and times "
                      "are possibly compatible with the leading percentage" % depth, c.loc())
    return r



def rule_g(ctx):
    r = RuleResult("C16-g", "printing `lhs op rhs` inside a calculation: an interpolated left operand is always parenthesised (its text may be a sum), an operation on "
                   "the left by precedence(); the decision has an arm of its own for Interpolation")
    prog = ctx.prog()
    b = prog.one("serializer::Serializer::write_calculation_arg")
    found = None
    for sw, ap, adt, variants, rv in common.discr_switches(b):
        if (adt or "").endswith("calculation::CalculationArg") and "lhs" in repr(ap):
            t = b.term(sw)
            arms = {variants.get(v): tb for v, tb in t["ts"]}
            if "Operation" in arms:
                found = (sw, arms, t["else"])
    if found is None:
        raise AnchorMissing("write_calculation_arg: no match on the left operand's kind")
    sw, arms, els = found
    key = "write_calculation_arg|interpolated-lhs-parenthesised"
    ok = False
    if "Interpolation" in arms and arms["Interpolation"] != els:
        vals = common.local_const_assigns(b, arms["Interpolation"]) if hasattr(common, "local_const_assigns") else None
        # the arm assigns the constant true to the flag that guards the pushes of '(' and ')'
        for s_ in b.stmts(arms["Interpolation"]):
            if s_["k"] == "assign" and s_["rv"].get("k") == "use" and s_["rv"]["op"].get("k") == "const" and Operand(s_["rv"]["op"]).const_value() is True:
                ok = True
    if ok:
        r.ok(key)
    else:
        r.violate(key, "write_calculation_arg no longer parenthesises an interpolated left operand: `calc((#{$g}) / 3)` with $g: \"100% - 4em\" is printed as "
                  "`calc(100% - 4em / 3)`, a different quantity", b.loc())
    return r


RULES = [rule_a, rule_b, rule_c, rule_d, rule_e, rule_f, rule_g]
