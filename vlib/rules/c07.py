"""C07 — number printing, modulo and tolerance helpers have the documented definitions (structural clauses only).

Nothing numeric is evaluated: the clauses compare the *definitions* (format template, decision structure, operand wiring) of the
few helper functions every number passes through with their reference definitions."""
from ..core import RuleResult
from ..facts import AnchorMissing, Operand
from .. import an, psa
from . import common

NUM = "grass_compiler::value::number::"


def fmt_placeholders(bs):
    """[(precision | None, width | None)] of the `{}` placeholders of a core::fmt::Arguments template byte string, plus its literal text."""
    out, lit = [], []
    i, n = 0, len(bs)
    while i < n:
        b = bs[i]
        i += 1
        if b == 0:
            break
        if b < 0x80:
            lit.append(bytes(bs[i:i + b]).decode("utf-8", "replace"))
            i += b
        elif b == 0x80:
            ln = bs[i] | (bs[i + 1] << 8)
            i += 2
            lit.append(bytes(bs[i:i + ln]).decode("utf-8", "replace"))
            i += ln
        elif b >= 0xC0:
            prec = width = None
            if b & 1:
                i += 4
            if b & 2:
                width = bs[i] | (bs[i + 1] << 8)
                i += 2
            if b & 4:
                prec = bs[i] | (bs[i + 1] << 8)
                i += 2
            if b & 8:
                i += 2
            out.append((prec, width))
        else:
            raise ValueError("not a fmt template")
    return out, "".join(lit)


def _template_bytes(body, op, depth=0):
    if depth > 5 or op.place is None:
        c = op.const or {}
        return c.get("bytes")
    for bb, i, d in body.defs_of(op.place.local):
        if isinstance(d, dict) and d["k"] == "ref":
            return _template_bytes(body, Operand({"k": "copy", "p": {"l": d["p"]["l"]}}), depth + 1)
        if isinstance(d, dict) and d["k"] == "use":
            if d["op"].get("k") == "const":
                return d["op"]["c"].get("bytes")
            return _template_bytes(body, Operand(d["op"]), depth + 1)
    return None


def rule_a(ctx):
    r = RuleResult("C07-a", "number text: the two functions that print a number format the magnitude with `{:.10}` (plain decimal, ten fractional digits), trim trailing zeros and a "
                   "trailing dot, map empty / `-` / `-0` to `0`, and spell infinities out")
    prog = ctx.prog()
    fns = {"write_float": prog.one("serializer::Serializer::write_float"), "Number::to_string": prog.one("value::number::Number::to_string")}
    for name, b in fns.items():
        # templates applied to an f64
        specs = []
        for c in b.calls():
            if (c.name() or c.callee or "").endswith("fmt::Arguments::new") or (c.callee or "").endswith("Arguments::new"):
                bs = _template_bytes(b, c.args[0])
                if bs is None:
                    specs.append(("?", None))
                    continue
                ph, lit = fmt_placeholders(bs)
                specs.append((ph, lit))
        f64_fmt = [c for c in b.calls() if (c.callee or "").endswith("Argument::new_display") and c.fn_args and c.fn_args[0] == "f64"]
        key = "%s|template" % name
        good = specs and all(ph != "?" and ph == [(10, None)] and lit == "" for ph, lit in specs) and len(f64_fmt) == len(specs)
        if good:
            r.ok(key, templates=len(specs), precision=10)
        else:
            r.violate(key, "%s formats a number with %s instead of exactly `{:.10}` applied to the f64 magnitude: numbers are printed with a different number of fractional "
                      "digits or with extra text" % (name, specs), b.loc())
        # trimming: trim_end_matches('0') then trim_end_matches('.') on every formatted string that is pushed
        trims = []
        for c in b.calls():
            if an.tail2(c.callee) == "str::trim_end_matches":
                ch = an.trace_operand(b, c.args[1])
                inner = an.trace_operand(b, c.args[0], through_calls=False)
                trims.append((c.bb, ch.root[1] if ch.root[0] == "const" else "?", inner))
        zero = [t for t in trims if t[1] == "0"]
        dot = [t for t in trims if t[1] == "."]
        chained = all(any(d_[2].root[0] == "call" and d_[2].root[2] == z[0] for d_ in dot) for z in zero)
        key = "%s|trims-zeros-then-dot" % name
        if zero and len(zero) == len(dot) == len(specs) and chained:
            r.ok(key, sites=len(zero))
        else:
            r.violate(key, "%s no longer trims trailing zeros and then a trailing `.` from every formatted magnitude (zeros: %d, dot: %d, templates: %d)" % (name, len(zero), len(dot), len(specs)), b.loc())
        # normalisation of the empty / "-" / "-0" text and infinities
        lits = set()
        for c in b.calls():
            for a in c.args:
                ap = an.trace_operand(b, a)
                if ap.root[0] == "const" and isinstance(ap.root[1], str):
                    lits.add(ap.root[1])
        for bb, i, pl, rv, st in b.assignments():
            if rv.get("k") == "use" and rv["op"].get("k") == "const":
                v = Operand(rv["op"]).const_value()
                if isinstance(v, str):
                    lits.add(v)
        want = {"-", "-0", "0", "Infinity", "-Infinity"}
        key = "%s|special-spellings" % name
        got = {x.strip("b'\"") for x in lits}
        if want <= got:
            r.ok(key, literals=sorted(want))
        else:
            r.violate(key, "%s lacks the special spellings %s (negative zero / empty text -> `0`, infinities spelled out)" % (name, sorted(want - got)), b.loc())
    return r


def rule_b(ctx):
    r = RuleResult("C07-b", "`%` takes the sign of the divisor: Number % Number is modulo(self.0, other.0); modulo is rem_euclid for a positive divisor, NaN for zero, and "
                   "rem_euclid + divisor (or 0) for a negative divisor")
    prog = ctx.prog()
    rem = prog.one("<grass_compiler::value::number::Number as std::ops::arith::Rem>::rem")
    cs = [c for c in rem.calls()]
    if len(cs) == 1 and (cs[0].name() or "").endswith("number::modulo") and [repr(an.trace_operand(rem, a)) for a in cs[0].args] == ["arg1.0", "arg2.0"]:
        r.ok("Number::rem|is-modulo")
    else:
        r.violate("Number::rem|is-modulo", "Number::rem is no longer modulo(self.0, other.0)", rem.loc())
    rm = prog.one("value::number::real_mod")
    cs = [c for c in rm.calls()]
    if len(cs) == 1 and (cs[0].callee or "").endswith("rem_euclid") and [repr(an.trace_operand(rm, x)) for x in cs[0].args] == ["arg1", "arg2"] and cs[0].dest.local == 0:
        r.ok("real_mod|is-rem_euclid")
    else:
        r.violate("real_mod|is-rem_euclid", "real_mod is no longer n1.rem_euclid(n2)", rm.loc())
    mo = prog.one("value::number::modulo")

    def classify(kind, obj, body, sw):
        if kind == "binop" and obj[0] in ("Gt", "Lt", "Eq", "Ne", "Ge", "Le"):
            a, b_ = obj[1], obj[2]
            ta = an.trace_operand(body, a) if a.place is not None else None
            tb = an.trace_operand(body, b_) if b_.place is not None else None
            ca = a.const_value() if a.const is not None else None
            cb = b_.const_value() if b_.const is not None else None
            op = obj[0]
            if ta is not None and ta.root == ("arg", 2) and cb is not None and float(b_.const.get("f", "nan")) == 0.0:
                return psa.Pred(("N2", op), []), False
            if ta is not None and ta.root[0] == "call" and ta.root[1].endswith("real_mod") and b_.const is not None and float(b_.const.get("f", "nan")) == 0.0 and op in ("Eq", "Ne"):
                return psa.Pred(("RES0",), []), op == "Ne"
        return None

    # result sites
    sites = []
    for bb, i, pl, rv, st in mo.assignments():
        if pl.local == 0 and not pl.proj:
            if rv["k"] == "use" and rv["op"].get("k") == "const":
                sites.append((bb, "const:" + str(rv["op"]["c"].get("f"))))
            elif rv["k"] == "binop" and rv["op"].startswith("Add"):
                xs = {repr(an.trace_operand(mo, Operand(rv["a"]))).split("@")[0], repr(an.trace_operand(mo, Operand(rv["b"]))).split("@")[0]}
                sites.append((bb, "real_mod+n2" if xs == {"real_mod()", "arg2"} else "add:%s" % sorted(xs)))
            elif rv["k"] == "use":
                t = an.trace_operand(mo, Operand(rv["op"]))
                sites.append((bb, "real_mod" if t.root[0] == "call" and t.root[1].endswith("real_mod") else repr(t)))
    for c in mo.calls():
        if c.dest is not None and c.dest.local == 0 and not c.dest.proj:
            sites.append((c.bb, "real_mod" if (c.name() or "").endswith("real_mod") and [repr(an.trace_operand(mo, x)) for x in c.args] == ["arg1", "arg2"] else (c.name() or "?")))
    table = {}
    for bb, what in sites:
        vals, complete = psa.valuations_at(mo, bb, classify)
        for v in vals:
            table.setdefault(what, []).append({k: val for k, val in v.items() if k[0] in ("N2", "RES0")})
    # expected: n2 > 0 -> real_mod ; n2 == 0 -> NaN ; else (res == 0 -> 0.0 | res + n2)
    def holds(what, pred):
        return what in table and all(pred(v) for v in table[what]) and table[what]
    ok = (holds("real_mod", lambda v: v.get(("N2", "Gt")) is True)
          and holds("const:NaN", lambda v: v.get(("N2", "Gt")) is False and v.get(("N2", "Eq")) is True)
          and holds("const:0.0", lambda v: v.get(("N2", "Gt")) is False and v.get(("N2", "Eq")) is False and v.get(("RES0",)) is True)
          and holds("real_mod+n2", lambda v: v.get(("N2", "Gt")) is False and v.get(("N2", "Eq")) is False and v.get(("RES0",)) is False)
          and set(table) == {"real_mod", "const:NaN", "const:0.0", "real_mod+n2"})
    if ok:
        r.ok("modulo|sign-of-divisor", results=sorted(table))
    else:
        r.violate("modulo|sign-of-divisor", "modulo(n1, n2) no longer is {n2 > 0: rem_euclid; n2 == 0: NaN; n2 < 0: 0 if rem_euclid == 0 else rem_euclid + n2}: found %s" %
                  {k: v[:2] for k, v in table.items()}, mo.loc())
    return r


def rule_c(ctx):
    r = RuleResult("C07-c", "tolerance: PRECISION is 10, epsilon() is 10^(-PRECISION-1), and the fuzzy comparisons are defined from `<` and fuzzy_equals "
                   "(less_than = a < b and not fuzzy_equals; less_than_or_equals = a < b or fuzzy_equals; as_int = fuzzy_equals(x, round(x)))")
    prog = ctx.prog()
    for fn, sign in (("epsilon", -1), ("inverse_epsilon", 1)):
        try:
            b = prog.one("value::number::" + fn)
        except AnchorMissing:
            if fn == "inverse_epsilon":
                r.note("inverse_epsilon() no longer exists (nothing to check; the bucket key of fuzzy_equals is checked by C09-f)")
                continue
            raise
        pw = [c for c in b.calls() if (c.callee or "").endswith("powi")]
        ok = False
        if len(pw) == 1:
            base = an.trace_operand(b, pw[0].args[0])
            ex = pw[0].args[1]
            exv = None
            if ex.const is not None:
                exv = ex.const_value()
            else:
                # -PRECISION - 1 / PRECISION + 1 over the constant
                e = an.trace_operand(b, ex)
                exv = None
                for bb, i, pl, rv, st in b.assignments():
                    if rv.get("k") == "binop" and rv["op"].replace("Unchecked", "") in ("Sub", "Add") and rv["b"].get("k") == "const":
                        k = int(Operand(rv["b"]).const_value())
                        a = rv["a"]
                        av = None
                        if a.get("k") == "const":
                            av = int(Operand(a).const_value())
                        else:
                            for bb2, i2, d in b.defs_of(a["p"]["l"]):
                                if isinstance(d, dict) and d.get("k") == "unop" and d.get("op") == "Neg":
                                    src = d.get("a") or d.get("operand")
                                    if src and src.get("k") == "const":
                                        av = -int(Operand(src).const_value())
                                if isinstance(d, dict) and d.get("k") == "use" and d["op"].get("k") == "const":
                                    av = int(Operand(d["op"]).const_value())
                        if av is not None:
                            exv = av - k if rv["op"].replace("Unchecked", "") == "Sub" else av + k
            try:
                ok = base.root[0] == "const" and float(base.root[1]) == 10.0 and exv is not None and int(exv) == sign * 11
            except (TypeError, ValueError):
                ok = False
        key = "%s|value" % fn
        if ok:
            r.ok(key, exponent=sign * 11)
        else:
            r.violate(key, "%s() is no longer 10^%d (Sass compares numbers with a tolerance of 1e-11)" % (fn, sign * 11), b.loc())

    def classify(kind, obj, body, sw):
        if kind == "binop" and obj[0] in ("Lt", "Gt", "Le", "Ge"):
            a, b_ = an.trace_operand(body, obj[1]), an.trace_operand(body, obj[2])
            if a.root == ("arg", 1) and b_.root == ("arg", 2):
                return psa.Pred(("CMP", obj[0]), []), False
            if a.root == ("arg", 2) and b_.root == ("arg", 1):
                return psa.Pred(("CMP", {"Lt": "Gt", "Gt": "Lt", "Le": "Ge", "Ge": "Le"}[obj[0]]), []), False
        if kind == "call" and (obj.name() or "").endswith("number::fuzzy_equals"):
            xs = [repr(an.trace_operand(body, a)) for a in obj.args]
            if sorted(xs) == ["arg1", "arg2"]:
                return psa.Pred(("FEQ",), []), False
        return None

    def truth_table(b):
        """{(lt, feq): set of results} where results are True/False or ('atom', key, negated)."""
        out = {}
        sites = []
        for bb, i, pl, rv, st in b.assignments():
            if pl.local == 0 and not pl.proj:
                if rv["k"] == "use" and rv["op"].get("k") == "const":
                    sites.append((bb, Operand(rv["op"]).const_value()))
                elif rv["k"] == "use":
                    t = an.trace_operand(b, Operand(rv["op"]), through_calls=False)
                    sites.append((bb, ("val", repr(t).split("@")[0])))
                elif rv["k"] == "unop" and rv.get("op") == "Not":
                    src = rv.get("a") or rv.get("operand")
                    t = an.trace_operand(b, Operand(src), through_calls=False)
                    sites.append((bb, ("not", repr(t).split("@")[0])))
                elif rv["k"] == "binop":
                    sites.append((bb, ("binop", rv["op"], repr(an.trace_operand(b, Operand(rv["a"]))), repr(an.trace_operand(b, Operand(rv["b"]))))))
        for c in b.calls():
            if c.dest is not None and c.dest.local == 0 and not c.dest.proj:
                sites.append((c.bb, ("val", (c.name() or "?").rsplit("::", 1)[-1] + "()")))
        for lt in (True, False):
            for feq in (True, False):
                res = set()
                for bb, what in sites:
                    vals, complete = psa.valuations_at(b, bb, classify)
                    for v in vals:
                        if v.get(("CMP", "Lt"), lt) == lt and v.get(("FEQ",), feq) == feq:
                            if what is True or what is False:
                                res.add(what)
                            elif what[0] == "val" and what[1].startswith("fuzzy_equals"):
                                res.add(feq)
                            elif what[0] == "not" and what[1].startswith("fuzzy_equals"):
                                res.add(not feq)
                            elif what[0] == "binop" and what[1] == "Lt" and what[2:] == ("arg1", "arg2"):
                                res.add(lt)
                            else:
                                res.add("?" + str(what))
                out[(lt, feq)] = res
        return out

    for fn, formula, text in (("fuzzy_less_than", lambda lt, feq: lt and not feq, "a < b && !fuzzy_equals(a, b)"),
                              ("fuzzy_less_than_or_equals", lambda lt, feq: lt or feq, "a < b || fuzzy_equals(a, b)")):
        b = prog.one("value::number::" + fn)
        tt = truth_table(b)
        key = "%s|definition" % fn
        bad = {k: sorted(map(str, v)) for k, v in tt.items() if v != {formula(*k)}}
        if not bad:
            r.ok(key, definition=text)
        else:
            r.violate(key, "%s is no longer `%s`: for (a < b, fuzzy_equals) = %s it returns %s" % (fn, text, list(bad)[0], list(bad.values())[0]), b.loc())
    ai = prog.one("value::number::fuzzy_as_int")
    fe = [c for c in ai.calls() if (c.name() or "").endswith("number::fuzzy_equals")]
    ok = False
    if len(fe) == 1:
        x, y = an.trace_operand(ai, fe[0].args[0]), an.trace_operand(ai, fe[0].args[1], through_calls=False)
        ok = x.root == ("arg", 1) and y.root[0] == "call" and y.root[1].endswith("f64>::round")
        if ok:
            rc = ai.call_at(y.root[2])
            ok = an.trace_operand(ai, rc.args[0]).root == ("arg", 1)
    if ok:
        r.ok("fuzzy_as_int|definition")
    else:
        r.violate("fuzzy_as_int|definition", "fuzzy_as_int no longer tests fuzzy_equals(num, num.round())", ai.loc())
    return r


RULES = [rule_a, rule_b, rule_c]
