"""C18 — the three input syntaxes and insignificant source variations agree (shared-table clauses)."""
from ..core import RuleResult
from ..facts import AnchorMissing, Operand, Place, norm
from .. import an, psa
from . import common

PARSE = "grass_compiler::parse::"
# reviewed override sets: every further override is a new place where the front ends can drift
ALLOWED_OVERRIDES = {
    ("sass::SassParser", "StylesheetParser"): {"at_end_of_statement", "expect_statement_separator", "looking_at_children", "parse_children", "parse_loud_comment",
                                                  "parse_silent_comment", "parse_statements", "parse_style_rule_selector", "scan_else"},
    ("sass::SassParser", "BaseParser"): {"skip_loud_comment", "whitespace_without_comments"},
    ("scss::ScssParser", "StylesheetParser"): set(),
    ("scss::ScssParser", "BaseParser"): set(),
    ("css::CssParser", "StylesheetParser"): {"parse_at_rule", "IDENTIFIER_LIKE"},
    ("css::CssParser", "BaseParser"): {"skip_silent_comment"},
}
ACCESSORS = {"toks", "toks_mut", "current_indentation", "empty_span", "flags", "flags_mut", "is_indented", "is_plain_css", "options", "path"}


def rule_a(ctx):
    r = RuleResult("C18-a", "one grammar, three front ends: the trait methods each parser overrides are exactly the reviewed hooks")
    prog = ctx.prog()
    seen = 0
    for crate, imp in prog.hir_items("impls"):
        t = imp.get("trait", "")
        st = imp["self"].get("adt", "")
        for (ty, tr), allowed in ALLOWED_OVERRIDES.items():
            if st == PARSE + ty and t.endswith("::" + tr):
                seen += 1
                names = {i["name"] for i in imp["items"]}
                extra = names - allowed - ACCESSORS
                missing = allowed - names
                key = "%s|%s" % (ty, tr)
                if not extra:
                    r.ok(key, overrides=sorted(names - ACCESSORS))
                for e in sorted(extra):
                    r.violate(key + "|" + e, "%s overrides %s::%s, which is not in the reviewed hook set: the %s front end can now diverge from the shared grammar there" % (ty, tr, e, ty.split("::")[0]))
                for m in sorted(missing):
                    r.note("%s no longer overrides %s::%s" % (ty, tr, m))
    r.floor("parser trait impls", seen, 6)
    # fixed answers of the two syntax predicates
    exp = {("sass::SassParser", "is_indented"): True, ("sass::SassParser", "is_plain_css"): False, ("scss::ScssParser", "is_indented"): False,
           ("scss::ScssParser", "is_plain_css"): False, ("css::CssParser", "is_indented"): False, ("css::CssParser", "is_plain_css"): True}
    for (ty, m), want in exp.items():
        bs = [b for p, b in prog.bodies.items() if p.startswith("<" + PARSE + ty) and p.endswith("StylesheetParser>::" + m)]
        if len(bs) != 1:
            r.violate("%s|%s" % (ty, m), "%s::%s not found" % (ty, m))
            continue
        vals = common.ret_consts_from(bs[0], 0)
        if vals == {want}:
            r.ok("%s|%s" % (ty, m), value=want)
        else:
            r.violate("%s|%s" % (ty, m), "%s::%s returns %s, expected %s" % (ty, m, sorted(map(str, vals)), want), bs[0].loc())
    return r


def rule_b(ctx):
    r = RuleResult("C18-b", "the lexer maps form feed, CR and CRLF to one `\\n` token and advances the byte position by the source width")
    prog = ctx.prog()
    b = prog.one("<grass_compiler::lexer::TokenLexer as std::iter::traits::iterator::Iterator>::next")
    sw = None
    for i in range(len(b.blocks)):
        t = b.term(i)
        if t["k"] == "switch" and t["dty"] == "char":
            sw = i
    if sw is None:
        raise AnchorMissing("TokenLexer::next: no match on the next char")
    t = b.term(sw)
    vals = {int(v): tb for v, tb in t["ts"]}
    if set(vals) == {0x0C, 0x0D}:
        r.ok("lexer|special-chars", chars=["\\x0C", "\\r"])
    else:
        r.violate("lexer|special-chars", "TokenLexer::next special-cases the characters %s; newline normalisation needs exactly form feed (0x0C) and CR (0x0D)" % sorted(hex(v) for v in vals), b.loc())
    # find the `kind` local: assigned '\n' in the special arms and the char itself in the default arm
    kind_local = None
    for bb, i, pl, rv, s in b.assignments():
        if rv["k"] == "use" and rv["op"]["k"] == "const" and rv["op"]["c"].get("ty") == "char" and not pl.proj:
            kind_local = pl.local
    if kind_local is None:
        raise AnchorMissing("TokenLexer::next: no char constant assigned")
    for v, tb in sorted(vals.items()):
        region = common.reach_from(b, tb) - common.reach_from(b, t["else"])
        cs = set()
        for bb, i, pl, rv, s in b.assignments():
            if bb in region | {tb} and pl.local == kind_local and not pl.proj and rv["k"] == "use" and rv["op"]["k"] == "const":
                cs.add(Operand(rv["op"]).const_value())
        key = "lexer|%#04x->newline" % v
        if cs == {"\n"}:
            r.ok(key)
        else:
            r.violate(key, "character %#04x is lexed as %s, expected a single `\\n`" % (v, sorted(cs)), b.loc())
    # default arm passes the char through unchanged
    dflt = [rv for bb, i, pl, rv, s in b.assignments() if bb == t["else"] and pl.local == kind_local]
    # CRLF: in the CR arm the char after CR is consumed exactly when it is LF, and the byte position advances by 1 exactly
    # on the paths that consume it.  Accepted consumption idioms: `if peek() == Some(&'\n') { next() }`, `next_if_eq(&'\n')`.
    cr = vals.get(0x0D)
    if cr is not None:
        region = (common.reach_from(b, cr) - common.reach_from(b, t["else"]) - (common.reach_from(b, vals.get(0x0C)) if 0x0C in vals else set())) | {cr}
        exits = {s_ for x in region for s_ in b.succ(x) if s_ not in region}
        peeks = [c for c in b.calls() if c.bb in region and an.tail2(c.callee) == "Peekable::peek"]
        nexts = [c for c in b.calls() if c.bb in region and an.tail2(c.callee) == "Iterator::next"]
        condn = [c for c in b.calls() if c.bb in region and an.tail2(c.callee) in ("Peekable::next_if_eq", "Peekable::next_if")]
        incs = []
        for bb, i, pl, rv, s in b.assignments():
            if bb in region and rv["k"] == "binop" and rv["op"].startswith("Add") and pl.proj and pl.proj[-1].get("n") == "cursor":
                k = an.trace_operand(b, Operand(rv["b"]))
                incs.append((bb, str(k.root[1]) if k.root[0] == "const" else "?"))

        def const_has_lf(a):
            pv = None
            tr = an.trace_operand(b, a)
            if tr.root[0] == "const" and "\n" in str(tr.root[1]):
                return True
            if a.is_const() and "promoted" in (a.const or {}):
                pv = b.promoted_value(a.const["promoted"])
            elif a.place is not None:
                for db, di, d in b.defs_of(a.place.local):
                    if isinstance(d, dict) and d["k"] == "ref":
                        for db2, di2, d2 in b.defs_of(d["p"]["l"]):
                            if isinstance(d2, dict) and d2["k"] == "use" and "promoted" in d2["op"].get("c", {}):
                                pv = b.promoted_value(d2["op"]["c"]["promoted"])
                            if isinstance(d2, dict) and d2["k"] == "use" and d2["op"].get("c", {}).get("ty") == "char":
                                pv = d2["op"]["c"].get("v")
                    if isinstance(d, dict) and d["k"] == "use" and "promoted" in d["op"].get("c", {}):
                        pv = b.promoted_value(d["op"]["c"]["promoted"])
            return pv is not None and "\n" in repr(pv).replace("\\n", "\n")

        def only_one_of(x, y):
            """Some path arm-head -> arm-exit passes block x but not block y."""
            reach_x = x == cr or an.reach_avoiding(b, cr, {y}, {x}) is not None
            return y != x and reach_x and (x in exits or an.reach_avoiding(b, x, {y}, exits) is not None)

        key = "lexer|CRLF"
        problems = []
        if len(nexts) + len(condn) != 1:
            problems.append("%d consumption call(s) in the CR arm (expected exactly one)" % (len(nexts) + len(condn)))
        if [a for _, a in incs] != ["1"]:
            problems.append("byte-position increments in the CR arm are %s (expected one `cursor += 1`)" % [a for _, a in incs])
        if not problems and nexts:
            n_ = nexts[0]
            eqs = [c for c in b.calls() if c.bb in region and an.tail2(c.callee) == "PartialEq::eq"]
            lf = any(const_has_lf(a) for c in eqs for a in c.args)
            guarded = False
            for c in eqs:
                for sw, pol in common.switches_on_call(b, c):
                    if an.edge_dominates(b, (sw, common.bool_edge(b, sw, pol)), n_.bb):
                        guarded = True
            if not (len(peeks) == 1 and lf and guarded):
                problems.append("the extra next() is not guarded by peek() == Some('\\n') (peeks=%d, compares with LF=%s, guarded=%s)" % (len(peeks), lf, guarded))
            ib = incs[0][0]
            if only_one_of(ib, n_.bb) or only_one_of(n_.bb, ib):
                problems.append("`cursor += 1` and the extra next() are not on the same paths")
        elif not problems and condn:
            c_ = condn[0]
            if an.tail2(c_.callee) != "Peekable::next_if_eq" or not const_has_lf(c_.args[1]):
                problems.append("the conditional consumption is not next_if_eq(&'\\n')")
            ib = incs[0][0]
            some_edges = []
            for sb in sorted(region):
                t_ = b.term(sb)
                if t_["k"] != "switch" or sb in b._const_switch:
                    continue
                for kind, obj, pol in an.cond_sources(b, Operand(t_["d"])):
                    if kind == "call" and an.tail2(obj.callee) in ("Option::is_some", "Option::is_none"):
                        inner = an.trace_operand(b, obj.args[0])
                        if inner.root[0] == "call" and inner.root[2] == c_.bb:
                            truth = pol if an.tail2(obj.callee) == "Option::is_some" else (not pol)
                            some_edges.append((sb, common.bool_edge(b, sb, truth)))
                    if kind == "discr":
                        ap, rv_ = obj
                        if ap.root[0] == "call" and ap.root[2] == c_.bb:
                            names = rv_.get("variants", {})
                            for v_, tb_ in t_["ts"]:
                                if names.get(v_) == "Some":
                                    some_edges.append((sb, tb_))
            if not some_edges:
                problems.append("the result of next_if_eq is not tested, so the byte position cannot follow the consumption")
            else:
                sb, tgt = some_edges[0]
                if not an.edge_dominates(b, (sb, tgt), ib):
                    problems.append("`cursor += 1` is not confined to the edge on which next_if_eq consumed the LF")
                if tgt != ib and (tgt in exits or an.reach_avoiding(b, tgt, {ib}, exits) is not None):
                    problems.append("a path on which next_if_eq consumed the LF skips `cursor += 1`")
        if not problems:
            r.ok(key, why="LF after CR is consumed by one call and the byte position advances by 1 on exactly those paths")
        else:
            r.violate(key, "CRLF handling in TokenLexer::next: " + "; ".join(problems) + " — CR LF must produce one `\\n` token and advance the byte position by 2", b.loc())
    # position bookkeeping: pos = cursor (before), cursor += len_utf8(kind)
    lens = [c for c in b.calls() if an.tail2(c.callee) == "char::len_utf8"]
    ok = bool(lens) and an.trace_operand(b, lens[0].args[0]).root == ("local", kind_local)
    if ok:
        r.ok("lexer|cursor-advances-by-len_utf8(kind)")
    else:
        r.violate("lexer|cursor", "the byte position no longer advances by len_utf8 of the emitted character", b.loc())
    return r


def rule_c(ctx):
    r = RuleResult("C18-c", "`_` and `-` are interchangeable in names: Identifier is only built by from_str, which normalises `_` to `-`")
    prog = ctx.prog()
    st = prog.struct("common::Identifier")
    if any(f["pub"] or "Restricted" in f["vis"] and "common" not in f["vis"] for f in st["fields"]):
        r.violate("Identifier|field", "Identifier's field is visible outside common.rs (%s)" % [f["vis"] for f in st["fields"]])
    else:
        r.ok("Identifier|field-private")
    lits = set()
    for b in prog.bodies.values():
        for bb, i, pl, rv, s in b.assignments():
            if rv["k"] == "agg" and rv.get("adt") == "grass_compiler::common::Identifier":
                lits.add(b.root)
    for root in sorted(lits):
        if root.endswith("common::Identifier::from_str") or "Clone>::clone" in root:
            r.ok("Identifier-literal|%s" % root)
        else:
            r.violate("Identifier-literal|%s" % root, "Identifier is constructed in %s without going through from_str (no `_`->`-` normalisation)" % root)
    fs = prog.one("common::Identifier::from_str")
    reps = [c for c in fs.calls() if an.tail2(c.callee) == "str::replace"]
    ok = False
    for c in reps:
        a = an.trace_operand(fs, c.args[1])
        bq = an.trace_operand(fs, c.args[2])
        if a.root == ("const", "_") and bq.root == ("const", "-"):
            ok = True
    # on the path without replace() the string has no underscore
    cont = [c for c in fs.calls() if an.tail2(c.callee) == "str::contains" and an.trace_operand(fs, c.args[1]).root == ("const", "_")]
    interns = [c for c in fs.calls() if (c.name() or "").endswith("InternedString::get_or_intern")]
    guarded = True
    for c in interns:
        src = an.trace_operand(fs, c.args[0], through_calls=False)
        if src.root[0] == "call" and an.tail2(src.root[1]) == "str::replace":
            continue
        facts_at = an.bool_guard_calls(fs, c.bb)
        if not any(kind == "call" and obj.bb == cont[0].bb and truth is False for kind, obj, truth, d in facts_at) if cont else True:
            guarded = False
    # every Identifier built in from_str wraps the result of one of those get_or_intern calls
    intern_bbs = {c.bb for c in interns}
    for bb, i, pl, rv, st_ in fs.assignments():
        if rv["k"] == "agg" and rv.get("adt") == "grass_compiler::common::Identifier":
            src = an.trace_operand(fs, Operand(rv["ops"][0]))
            if not (src.root[0] == "call" and src.root[2] in intern_bbs and not src.proj):
                guarded = False
                r.note("Identifier built at line %d from %r, not from a normalised get_or_intern" % (st_["span"]["l"], src))
    if ok and guarded and interns:
        r.ok("Identifier::from_str|normalises-underscore")
    else:
        r.violate("Identifier::from_str|normalises-underscore", "Identifier::from_str no longer replaces every `_` by `-` before interning", fs.loc())
    # the @forward prefix is a plain String that PrefixedMapView matches against normalised member names: it must itself be
    # read with normalisation (parse_identifier(normalize = true, ..)) wherever an AstForwardRule is built
    nfp = 0
    for cb in prog.bodies.values():
        for bb, i, pl, rv, st_ in cb.assignments():
            if not (rv["k"] == "agg" and rv.get("adt", "").endswith("ast::stmt::AstForwardRule") and "prefix" in rv.get("fields", [])):
                continue
            src = an.trace_operand(cb, Operand(rv["ops"][rv["fields"].index("prefix")]))
            if "Clone>::clone" in cb.path:
                continue
            if src.root[0] != "arg" or src.proj:
                r.violate("AstForwardRule.prefix|%s" % cb.root, "%s builds an AstForwardRule whose prefix is %r, not a constructor parameter" % (cb.path, src), cb.loc())
                continue
            k = src.root[1]
            for caller in prog.bodies.values():
                for cc in caller.calls():
                    if cb.path not in prog.call_targets(cc):
                        continue
                    nfp += 1
                    key = "AstForwardRule.prefix|%s|from %s" % (cb.path.rsplit("::", 1)[-1], caller.root.rsplit("::", 1)[-1])
                    a = cc.args[k - 1]
                    okp = a.place is not None and not a.place.proj
                    srcs = []
                    if okp:
                        loc_ = a.place.local
                        for _g in range(6):
                            ds = caller.defs_of(loc_)
                            if len(ds) == 1 and isinstance(ds[0][2], dict) and ds[0][2]["k"] == "use" and "p" in ds[0][2]["op"] and not ds[0][2]["op"]["p"].get("p"):
                                loc_ = ds[0][2]["op"]["p"]["l"]
                            else:
                                break
                        for db, di, d in caller.defs_of(loc_):
                            if isinstance(d, dict) and d["k"] == "agg" and d.get("variant") == "None":
                                continue
                            if isinstance(d, dict) and d["k"] == "agg" and d.get("variant") == "Some":
                                pa = an.trace_operand(caller, Operand(d["ops"][0]))
                                pc = caller.call_at(pa.root[2]) if pa.root[0] == "call" else None
                                srcs.append(repr(pa))
                                if pc is not None and (pc.name() or "").endswith("BaseParser::parse_identifier") and an.trace_operand(caller, pc.args[1]).root == ("const", True):
                                    continue
                            okp = False
                    if okp:
                        r.ok(key)
                    else:
                        r.violate(key, "%s passes a forward prefix that was not read with parse_identifier(normalize = true) (%s): `as my_lib_*` then never matches the "
                                  "normalised member names (`my-lib-...`), so `_` and `-` stop being interchangeable in prefixed members" % (caller.path, srcs or a), cc.loc())
    r.floor("AstForwardRule constructions with a prefix", nfp, 3)
    # every From impl goes through from_str
    n = 0
    for p, b in prog.bodies.items():
        if p.startswith("<grass_compiler::common::Identifier as std::convert::From<"):
            n += 1
            if any((c.name() or "").endswith("Identifier::from_str") for c in b.calls()):
                r.ok("From|%s" % p)
            else:
                r.violate("From|%s" % p, "%s does not call Identifier::from_str" % p, b.loc())
    r.floor("From impls of Identifier", n, 3)
    # scope maps are keyed by Identifier
    sc = prog.struct("evaluate::scope::Scopes")
    for f in sc["fields"]:
        if f["name"] in ("variables", "mixins", "functions"):
            if "grass_compiler::common::Identifier" in f["ty"]["s"]:
                r.ok("Scopes.%s|keyed-by-Identifier" % f["name"])
            else:
                r.violate("Scopes.%s|keyed-by-Identifier" % f["name"], "Scopes.%s is keyed by %s, not by the normalising Identifier" % (f["name"], f["ty"]["s"]))
    return r


# E3: at-rules dart-sass's CssParser rejects ("This at-rule isn't allowed in plain CSS.")
CSS_REJECTED = {"at-root", "content", "debug", "each", "error", "extend", "for", "function", "if", "include", "mixin", "return", "warn", "while"}
CSS_SPECIAL = {"import": "parse_css_import_rule", "media": "parse_media_rule", "supports": "parse_supports_rule"}
# functions that must reject their Sass-only construct when is_plain_css()
PLAIN_GUARDS = {
    "stylesheet::StylesheetParser::parse_single_interpolation": "interpolation",
    "stylesheet::StylesheetParser::parse_variable_declaration_without_namespace": "variable declarations",
    "stylesheet::StylesheetParser::parse_silent_comment": "silent comments",
    "stylesheet::StylesheetParser::parse_property_or_variable_declaration": "nested declarations",
    "value::ValueParser::parse_variable": "variables",
    "value::ValueParser::parse_selector": "the parent selector `&` in values",
    "value::ValueParser::parse_paren_expr": "parenthesised expressions",
    "value::ValueParser::add_operator": "SassScript operators",
    "value::ValueParser::parse_unary_operation": "unary operators",
    "value::ValueParser::namespaced_expression": "module namespaces",
}


def _arm_kind(body, target):
    """First parser call reached from an arm target (follows single successors)."""
    seen = set()
    b = target
    for _ in range(12):
        if b in seen:
            break
        seen.add(b)
        c = body.call_at(b)
        if c is not None:
            nm = (c.callee or c.name() or "")
            last = nm.rsplit("::", 1)[-1]
            if last.startswith("parse_") or last in ("unknown_at_rule", "almost_any_value", "_parse_moz_document_rule"):
                return last
        ss = body.succ(b)
        if len(ss) != 1:
            break
        b = ss[0]
    return None


def rule_d(ctx):
    r = RuleResult("C18-d", "plain CSS rejects exactly the Sass-only at-rules and every Sass-only construct is guarded by is_plain_css()")
    prog = ctx.prog()
    b = [x for p, x in prog.bodies.items() if p.startswith("<" + PARSE + "css::CssParser") and p.endswith("StylesheetParser>::parse_at_rule")]
    if len(b) != 1:
        raise AnchorMissing("CssParser::parse_at_rule not found")
    b = b[0]
    table = {}
    for c, m, lit in common.str_tests(b):
        if m != "eq":
            continue
        for sw, pol in common.switches_on_call(b, c):
            tb = common.bool_edge(b, sw, pol)
            table[lit] = _arm_kind(b, tb)
    rejected = {k for k, v in table.items() if v == "almost_any_value"}
    for name in sorted(CSS_REJECTED | rejected):
        key = "css-at-rule|%s" % name
        if name in CSS_REJECTED and name in rejected:
            r.ok(key, action="rejected")
        elif name in CSS_REJECTED:
            r.violate(key, "plain CSS no longer rejects the Sass-only at-rule @%s (handled by %s)" % (name, table.get(name, "the unknown-at-rule fallback")), b.loc())
        else:
            r.violate(key, "plain CSS rejects @%s, which is valid CSS / not in dart-sass's rejected set" % name, b.loc())
    for name, fn in CSS_SPECIAL.items():
        key = "css-at-rule|%s" % name
        if table.get(name) == fn:
            r.ok(key, action=fn)
        else:
            r.violate(key, "plain CSS handles @%s with %s, expected %s" % (name, table.get(name), fn), b.loc())
    for name, v in table.items():
        if name not in CSS_REJECTED and name not in CSS_SPECIAL:
            if v in ("_parse_moz_document_rule",):
                r.violate("css-at-rule|%s" % name, "plain CSS dispatches @%s to %s" % (name, v), b.loc())
    # the rejection is an Err
    if an.err_exit_blocks(b):
        r.ok("css-at-rule|rejection-is-Err")
    r.floor("rejected at-rules", len(rejected), 14)
    # is_plain_css guards
    n = 0
    for fn, what in PLAIN_GUARDS.items():
        body = prog.one(fn)
        errs = an.err_exit_blocks(body)
        guards = 0
        for c in body.calls():
            if (c.callee or "").endswith("StylesheetParser::is_plain_css"):
                for sw, pol in common.switches_on_call(body, c):
                    tb = common.bool_edge(body, sw, pol)
                    ob = common.bool_edge(body, sw, not pol)
                    if (common.reach_from(body, tb) - common.reach_from(body, ob)) & errs:
                        guards += 1
        n += guards
        key = "%s|plain-css-guard" % fn
        if guards:
            r.ok(key, construct=what, guards=guards)
        else:
            r.violate(key, "%s no longer rejects %s in plain CSS (no is_plain_css() test leading to an Err)" % (fn, what), body.loc())
    r.floor("is_plain_css rejection guards", n, 13)
    # silent comments: the CSS parser's override returns Err unconditionally
    sc = [x for p, x in prog.bodies.items() if p.startswith("<" + PARSE + "css::CssParser") and p.endswith("BaseParser>::skip_silent_comment")]
    if sc and all(bl in an.err_exit_blocks(sc[0]) or True for bl in [0]) and an.err_exit_blocks(sc[0]) and not any(rv["k"] == "agg" and rv.get("variant") == "Ok" for _, _, _, rv, _ in sc[0].assignments()):
        r.ok("CssParser::skip_silent_comment|always-Err")
    else:
        r.violate("CssParser::skip_silent_comment|always-Err", "CssParser::skip_silent_comment can succeed: `//` comments would be accepted in plain CSS")
    return r



def rule_e(ctx):
    r = RuleResult("C18-e", "indented syntax: whitespace-only lines are insignificant — the tab/space flags checked for the next real line are re-initialised for every "
                   "line that peek_indentation scans (they describe one line, not everything skipped so far)")
    from . import loops as _loops
    prog = ctx.prog()
    b = prog.one("parse::sass::SassParser::peek_indentation")
    chk = [c for c in b.calls() if (c.name() or "").endswith("SassParser::check_indentation_consistency")]
    if len(chk) != 1:
        raise AnchorMissing("peek_indentation: expected one call of check_indentation_consistency, found %d" % len(chk))
    nl = _loops.natural_loops(b)
    n = 0
    for a in chk[0].args[1:]:
        if a.place is None or b.local_ty(a.place.local) != "bool":
            continue
        L = a.place.local
        # follow a plain copy to the multi-definition flag
        defs = b.defs_of(L)
        if len(defs) == 1 and isinstance(defs[0][2], dict) and defs[0][2]["k"] == "use" and "p" in defs[0][2]["op"]:
            L = defs[0][2]["op"]["p"]["l"]
            defs = b.defs_of(L)
        sets = [bb for bb, i, d in defs if isinstance(d, dict) and d["k"] == "use" and d["op"].get("k") == "const" and Operand(d["op"]).const_value() is True]
        resets = [bb for bb, i, d in defs if isinstance(d, dict) and d["k"] == "use" and d["op"].get("k") == "const" and Operand(d["op"]).const_value() is False]
        if not sets:
            continue
        n += 1
        name = b.local_name(L) if hasattr(b, "local_name") else "_%d" % L
        outer = None
        for h, blk in nl.items():
            if all(s_ in blk for s_ in sets) and (outer is None or len(blk) > len(nl[outer])):
                outer = h
        key = "peek_indentation|flag#%d|reset-per-line" % n
        if outer is None:
            r.ok(key, how="flag is not set inside a loop")
            continue
        inside = [x for x in resets if x in nl[outer]]
        if inside and all(any(x == s_ or b.dominates(x, s_) for x in inside) for s_ in sets):
            r.ok(key, how="reset inside the line loop before any set")
        else:
            r.violate(key, "peek_indentation keeps a tab/space flag across the whitespace-only lines it skips (no reset to false inside the loop over lines before the flag is "
                      "set): a blank line containing the other kind of whitespace makes the next real line fail the mixed-indentation check, although the same SCSS compiles",
                      chk[0].loc())
    r.floor("indentation flags", n, 2)
    return r



def rule_f(ctx):
    r = RuleResult("C18-f", "a leading byte-order mark is skipped for all three syntaxes: the scan_char('\\u{feff}') sits in a parser method that no front end overrides "
                   "(or in every override), on the way from the shared entry point")
    prog = ctx.prog()
    sites = []
    for b in prog.bodies.values():
        if b.crate != "grass_compiler" or "/parse/" not in b.file:
            continue
        for c in b.calls():
            if (c.name() or c.callee or "").endswith("BaseParser::scan_char") and len(c.args) >= 2:
                v = an.trace_operand(b, c.args[1])
                if v.root[0] == "const" and str(v.root[1]) in ("\ufeff", "'\ufeff'"):
                    sites.append((b, c))
    if not sites:
        r.violate("bom|skipped", "no parser method skips a leading U+FEFF any more: a BOM becomes part of the first selector or breaks the first at-rule")
        return r
    # which StylesheetParser methods does each front end override?
    overrides = {}
    for crate, imp in prog.hir_items("impls"):
        t = imp.get("trait", "") or ""
        if t.endswith("::StylesheetParser"):
            overrides[(imp["self"].get("adt", "") or "?").rsplit("::", 1)[-1]] = {i["name"] for i in imp["items"]}
    if len(overrides) < 3:
        raise AnchorMissing("expected three StylesheetParser impls, found %s" % sorted(overrides))
    for b, c in sites:
        leaf = b.path.rsplit("::", 1)[-1]
        key = "bom|%s" % leaf
        if "StylesheetParser::" in b.path and not b.path.startswith("<"):
            # a default method of the trait: every front end that overrides it loses the skip
            losers = sorted(ty for ty, names in overrides.items() if leaf in names)
            if losers:
                r.violate(key, "the BOM is skipped in the default StylesheetParser::%s, which %s overrides without skipping it: a leading U+FEFF changes the result for that "
                          "syntax only (SCSS and the indented syntax no longer agree)" % (leaf, ", ".join(losers)), c.loc())
            else:
                r.ok(key, where="default method not overridden by %s" % sorted(overrides))
        else:
            r.ok(key, where=b.path)
    return r



def rule_g(ctx):
    r = RuleResult("C18-g", "comments in front of a file's @use/@forward rules are insignificant: the scan that records the leading @use/@forward rules skips variable "
                   "declarations, loud comments and silent comments alike")
    prog = ctx.prog()
    b = prog.one("parse::stylesheet::StylesheetParser::__parse")
    found = None
    for sw, ap, adt, variants, rv in common.discr_switches(b):
        if (adt or "").endswith("ast::stmt::AstStmt"):
            t = b.term(sw)
            arms = {variants.get(v): tb for v, tb in t["ts"]}
            if "Use" in arms and "Forward" in arms:
                found = (sw, arms, t["else"])
    if found is None:
        raise AnchorMissing("__parse: the scan over the leading statements (match on AstStmt with Use/Forward arms) was not found")
    sw, arms, els = found
    skip_target = arms.get("VariableDecl")
    skipped = sorted(k for k, tb in arms.items() if tb == skip_target and skip_target is not None and tb != els)
    key = "__parse|leading-statements-skipped"
    if {"VariableDecl", "LoudComment", "SilentComment"} <= set(skipped):
        r.ok(key, skipped=skipped)
    else:
        r.violate(key, "the scan for leading @use/@forward rules skips only %s: a `//` or `/* */` comment (or a variable) in front of `@forward` makes an @import of that file "
                  "ignore the forwarded members" % skipped, b.loc())
    return r


RULES = [rule_a, rule_b, rule_c, rule_d, rule_e, rule_f, rule_g]
