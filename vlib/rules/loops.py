"""P4 — lexer-state analysis of parser loops (C01-c).

Forward abstract interpretation over each parser function's CFG.  Abstract state:
  eof  in {U(nknown), N(ot at end), E(nd of input)}   prog in {False, True}  (cursor advanced since loop head / entry)
  pending: results of calls whose later test decides progress (next(), peek(), scan_char(), `f()?` ...)
Function summaries `ok_progress(f)`: every return of f that is Ok / true / Some (or any return of a unit fn) has consumed
at least one token — least fixpoint over the call graph, recursion starts pessimistic.

Uses: prover (every cycle of every loop makes progress, or the loop is driven by a finite std iterator),
refuter (assuming end of input at the loop head, some cycle is forced => the parser hangs at EOF)."""
import sys

from ..core import RuleResult
from ..facts import AnchorMissing, Operand, Place, Call
from .. import an
from . import common

LEXER = "grass_compiler::lexer::Lexer"
NEXT = "<grass_compiler::lexer::Lexer as std::iter::traits::iterator::Iterator>::next"
PARSER_FILES = ("/parse/", "selector/parse.rs", "selector/attribute.rs")
FINITE_ITERS = ("std::vec::into_iter::IntoIter", "std::slice::iter::Iter", "std::slice::iter::IterMut", "std::str::iter::Chars", "std::str::iter::Bytes",
                "std::ops::range::Range<", "std::iter::adapters::rev::Rev", "std::iter::adapters::enumerate::Enumerate", "std::iter::adapters::peekable::Peekable",
                "std::iter::adapters::zip::Zip", "std::iter::adapters::map::Map", "std::iter::adapters::copied::Copied", "std::iter::adapters::skip::Skip",
                "std::str::iter::CharIndices", "std::collections::btree", "std::collections::hash", "std::iter::adapters::take::Take",
                "std::iter::adapters::cloned::Cloned", "std::iter::adapters::filter::Filter", "std::ops::range::RangeInclusive<", "std::str::iter::Split",
                "std::vec::drain::Drain", "std::iter::adapters::chain::Chain", "indexmap::")
PURE_LEXER = ("peek_n", "peek_previous", "peek_n_backwards", "raw_text", "span_from", "cursor", "current_span", "prev_span", "span_at_index")


def is_parser_body(b):
    return b.crate == "grass_compiler" and any(x in b.file for x in PARSER_FILES)


def ret_kind(body):
    t = body.local_ty(0)
    if t.startswith("std::result::Result<"):
        return "result"
    if t == "bool":
        return "bool"
    if t.startswith("std::option::Option<"):
        return "option"
    if t == "()":
        return "unit"
    return "other"


def natural_loops(body):
    """header -> set of blocks"""
    idom = body.idom()
    pr = body.preds()
    loops = {}
    for x in idom:
        for s in body.succ(x):
            if body.dominates(s, x):
                # natural loop of back edge x -> s
                blk = {s, x}
                st = [x]
                while st:
                    y = st.pop()
                    if y == s:
                        continue
                    for p in pr[y]:
                        if p not in blk and p in idom:
                            blk.add(p)
                            st.append(p)
                loops.setdefault(s, set()).update(blk)
    return loops


def _payload_tag(body, op, lvd):
    """'true'/'false'/'some'/'none'/None for the payload operand of Ok(..)/Some(..)."""
    if op["k"] == "const":
        c = op["c"]
        if c.get("ty") == "bool":
            return "true" if c.get("v") else "false"
        return None
    pl = op.get("p")
    if pl is None or pl.get("p"):
        return None
    l = pl["l"]
    v = lvd.get(l)
    if isinstance(v, bool):
        return "true" if v else "false"
    if v in ("some", "none"):
        return v
    defs = body.defs_of(l)
    if len(defs) == 1 and isinstance(defs[0][2], dict):
        d = defs[0][2]
        if d["k"] == "use" and d["op"]["k"] == "const" and d["op"]["c"].get("ty") == "bool":
            return "true" if d["op"]["c"].get("v") else "false"
        if d["k"] == "agg" and d.get("agg") == "adt" and d.get("variant") in ("Some", "None") and d.get("adt", "").endswith("option::Option"):
            return d["variant"].lower()
        if d["k"] == "use" and "p" in d["op"] and not d["op"]["p"].get("p"):
            return _payload_tag(body, d["op"], lvd)
    return None


def ret_tag(body, rv, lvd):
    if rv["k"] == "agg" and rv.get("agg") == "adt":
        var = rv.get("variant")
        if var == "Ok":
            pt = _payload_tag(body, rv["ops"][0], lvd) if rv.get("ops") else None
            return "ok_" + pt if pt else "ok"
        return {"Err": "err", "Some": "some", "None": "none"}.get(var, "other")
    if rv["k"] == "use" and rv["op"]["k"] == "const":
        v = Operand(rv["op"]).const_value()
        return "true" if v is True else ("false" if v is False else "other")
    if rv["k"] == "use" and "p" in rv["op"] and not rv["op"]["p"].get("p"):
        l = rv["op"]["p"]["l"]
        if isinstance(lvd.get(l), bool):
            return "true" if lvd[l] else "false"
        src = an.trace_operand(body, Operand(rv["op"]), through_calls=False)
        return ("call", src.root[2]) if src.root[0] == "call" else "other"
    return "other"


class Engine:
    def __init__(self, prog):
        self.prog = prog
        self.bodies = [b for b in prog.bodies.values() if is_parser_body(b)]
        self.summ = {}  # path -> bool (ok_progress)
        self._edge_cache = {}
        self._compute_may_move()
        self._load_or_compute()

    def _compute_may_move(self):
        """Functions that can (transitively) move the lexer cursor: they call Lexer::next / set_cursor."""
        prog = self.prog
        direct = set()
        for b in prog.bodies.values():
            if b.crate != "grass_compiler":
                continue
            for c in b.calls():
                n = c.name() or ""
                if n == NEXT or n == LEXER + "::set_cursor" or (c.callee == "std::iter::traits::iterator::Iterator::next" and c.fn_args and "lexer::Lexer" in c.fn_args[0]):
                    direct.add(b.path)
        callers = prog.callers()
        moved = set(direct)
        work = list(direct)
        while work:
            x = work.pop()
            for y in callers.get(x, ()):
                if y not in moved:
                    moved.add(y)
                    work.append(y)
        self.may_move = moved

    def applicators(self):
        """Generic wrappers `fn w(&mut self, f: impl Fn(&mut Self) -> T)` that call `f` exactly once and do not move the
        cursor themselves (raw_text, fallible_raw_text): path -> index of the callable parameter."""
        if getattr(self, "_appl", None) is None:
            out = {}
            for b in self.bodies:
                calls = [c for c in b.calls() if an.tail2(c.callee) in ("Fn::call", "FnOnce::call_once", "FnMut::call_mut")]
                if len(calls) != 1:
                    continue
                ap = an.trace_operand(b, calls[0].args[0])
                if ap.root[0] != "arg":
                    continue
                others = False
                for c in b.calls():
                    if c is calls[0]:
                        continue
                    n = c.name() or ""
                    if n == NEXT or n == LEXER + "::set_cursor":
                        others = True
                    ts = self.prog.call_targets(c)
                    if any(t in self.may_move for t in ts):
                        others = True
                if not others and b.exits() and all(b.dominates(calls[0].bb, e) for e in b.exits() if not self._is_err_exit(b, e)):
                    out[b.path] = ap.root[1]
            self._appl = out
        return self._appl

    @staticmethod
    def _is_err_exit(body, e):
        return False

    def _callable_arg_target(self, body, call, param_idx):
        """Body path of the fn item / closure passed as argument number `param_idx` (1-based) of `call`."""
        if param_idx - 1 >= len(call.args):
            return None
        a = call.args[param_idx - 1]
        fp = a.fn_path()
        if fp and fp in self.prog.bodies:
            ts = {fp} | set(self.prog.impl_methods().get(fp, []))
            return [t for t in ts if t in self.prog.bodies]
        ap = an.trace_operand(body, a)
        if ap.root[0] == "fn":
            from ..facts import norm
            fp = norm(ap.root[1])
            ts = ({fp} if fp in self.prog.bodies else set()) | set(self.prog.impl_methods().get(fp, []))
            return list(ts) or None
        if a.place is not None:
            for bb_, i_, d in body.defs_of(a.place.local):
                if isinstance(d, dict) and d["k"] == "agg" and d.get("agg") == "closure":
                    from ..facts import norm
                    q = norm(d["def"])
                    if q in self.prog.bodies:
                        return [q]
            if a.const and "closure" in (a.const.get("ty") or ""):
                cl = self.prog.closures_of(body)
                if len(cl) == 1:
                    return [cl[0].path]
        return None

    # ------------------------------------------------------------------------------------------
    def callee_summary(self, call):
        """(kind, level) for a call to local parser functions; None if not a parser call."""
        targets = self.prog.call_targets(call)
        if not targets and call.callee is None:
            targets = self.prog.indirect_targets(call)
        targets = [t for t in targets if (t, "U") in self.summ]
        if not targets:
            return None
        kinds = {ret_kind(self.prog.bodies[t]) for t in targets}
        rank = {None: 0, "weak": 1, "strong": 2}
        lvl = min((self.summ[(t, "U")] for t in targets), key=lambda x: rank[x])
        lvl_n = min((self.summ[(t, "N")] for t in targets), key=lambda x: rank[x])
        kind = kinds.pop() if len(kinds) == 1 else "other"
        return kind, lvl, lvl_n

    def _parser_receiver(self, body, call):
        """Does the call operate on the same parser / lexer as `body` (its receiver derives from an argument)?"""
        for a in call.args[:2]:
            if a.place is None:
                continue
            ap = an.trace_operand(body, a)
            if ap.root[0] == "arg":
                return True
            if ap.root[0] == "call" and an.tail2(ap.root[1]) in ("BaseParser::toks", "BaseParser::toks_mut"):
                return True
        # closures capture the parser
        if body.is_closure():
            return True
        return False

    # ------------------------------------------------------------------------------------------
    def block_effect(self, body, b):
        """Pre-computed description of a block's terminator for the transfer function."""
        key = (body.path, b)
        if key in self._edge_cache:
            return self._edge_cache[key]
        t = body.term(b)
        eff = None
        if t["k"] == "call":
            c = body.call_at(b) or Call(body, b, t)
            n = c.name() or ""
            t2 = an.tail2(c.callee)
            if n == NEXT or (c.callee == "std::iter::traits::iterator::Iterator::next" and c.fn_args and c.fn_args[0].endswith("lexer::Lexer")):
                eff = ("next",)
            elif n == LEXER + "::peek" or n == LEXER + "::peek_n":
                eff = ("peek",)
            elif n == LEXER + "::next_char_is":
                eff = ("nci",)
            elif n == LEXER + "::set_cursor":
                src = an.trace_operand(body, c.args[1], through_calls=False) if len(c.args) > 1 else None
                if src is not None and src.root[0] == "call" and src.root[1] == LEXER + "::cursor" and not src.proj:
                    eff = ("rewind", src.root[2])
                else:
                    eff = ("rewind", None)
            elif n == LEXER + "::cursor":
                eff = ("snap",)
            elif n.startswith(LEXER + "::"):
                eff = None
            else:
                s = self.callee_summary(c)
                targets = self.prog.call_targets(c) or (self.prog.indirect_targets(c) if c.callee is None else set())
                appl = self.applicators()
                if targets and all(t in appl for t in targets):
                    # generic wrapper applying a callable argument once: the effect is that of the callable
                    inner = self._callable_arg_target(body, c, appl[next(iter(targets))])
                    if inner and all((t, "U") in self.summ for t in inner):
                        rank = {None: 0, "weak": 1, "strong": 2}
                        lu = min((self.summ[(t, "U")] for t in inner), key=lambda x: rank[x])
                        ln = min((self.summ[(t, "N")] for t in inner), key=lambda x: rank[x])
                        ik = {ret_kind(self.prog.bodies[t]) for t in inner}
                        wk = ret_kind(self.prog.bodies[next(iter(targets))])
                        # a wrapper returning Result propagates the callable's Err; success of the wrapper = success of the callable
                        def lift(l, ik=ik, wk=wk):
                            if l != "strong":
                                return None
                            return "strong"
                        s = (wk if wk in ("result",) else "unit", lift(lu), lift(ln))
                if targets and not any(t in self.may_move for t in targets) and not all(t in appl for t in targets):
                    s = None  # cannot move the cursor: no effect on the lexer state
                if s is not None and self._parser_receiver(body, c):
                    kind, lvl, lvl_n = s

                    def enc(kind, lvl):
                        if kind in ("unit", "other") and lvl == "strong":
                            return ("advance",)
                        if lvl == "strong" and kind == "result":
                            return ("cond", "RESP")
                        if lvl == "weak" and kind == "result":
                            return ("cond", "RESPW")
                        if lvl and kind == "bool":
                            return ("cond", "BOOLP")
                        if lvl and kind == "option":
                            return ("cond", "OPTP")
                        return ("unknown_call",)

                    eff = ("ctx", enc(kind, lvl), enc(kind, lvl_n))
        self._edge_cache[key] = eff
        return eff

    def switch_source(self, body, b):
        """For a switch block: (call bb whose result is tested, mapping edge-target -> 'pos'/'neg'/None)."""
        key = (body.path, b, "sw")
        if key in self._edge_cache:
            return self._edge_cache[key]
        t = body.term(b)
        res = None
        if t["k"] == "switch" and b not in body._const_switch:
            srcs = an.cond_sources(body, Operand(t["d"]))
            for kind, obj, pol in srcs:
                if kind == "discr":
                    ap, rv = obj
                    base = an.AP(ap.root, tuple(x for x in ap.proj if x != "<discr>"))
                    if base.root[0] == "local" and not base.proj:
                        variants = rv.get("variants", {})
                        posn = {"Some", "Ok", "Continue"}
                        mp = {}
                        listed = set()
                        for v, tb in t["ts"]:
                            name = variants.get(v, v)
                            listed.add(v)
                            mp.setdefault(tb, set()).add("pos" if name in posn else "neg")
                        rest = {n_ for v, n_ in variants.items() if v not in listed}
                        if rest:
                            mp.setdefault(t["else"], set()).update("pos" if n_ in posn else "neg" for n_ in rest)
                        res = ("local", base.root[1], {tb: (next(iter(s_)) if len(s_) == 1 else None) for tb, s_ in mp.items()})
                        break
                    if base.root[0] == "call" and base.proj == ("?",):
                        # Option payload of `f()?`: Some => positive payload
                        variants = rv.get("variants", {})
                        mp = {}
                        listed = set()
                        for v, tb in t["ts"]:
                            name = variants.get(v, v)
                            listed.add(v)
                            mp.setdefault(tb, set()).add("ppos" if name == "Some" else "pneg")
                        rest = {n_ for v, n_ in variants.items() if v not in listed}
                        if rest:
                            mp.setdefault(t["else"], set()).update("ppos" if n_ == "Some" else "pneg" for n_ in rest)
                        res = (base.root[2], {tb: (next(iter(s_)) if len(s_) == 1 else None) for tb, s_ in mp.items()})
                        break
                    if base.root[0] != "call" or base.proj:
                        # payload of an Option already known to be Some etc.
                        continue
                    cname, cbb = base.root[1], base.root[2]
                    variants = rv.get("variants", {})
                    src_bb = cbb
                    if an.tail2(cname) == "Try::branch":
                        bc = body.call_at(cbb)
                        inner = an.trace_operand(body, bc.args[0], through_calls=False)
                        if inner.root[0] == "call":
                            src_bb = inner.root[2]
                        else:
                            continue
                        posn = {"Continue"}
                    else:
                        posn = {"Some", "Ok", "Continue"}
                    mp = {}
                    listed = set()
                    for v, tb in t["ts"]:
                        name = variants.get(v, v)
                        listed.add(v)
                        mp.setdefault(tb, set()).add("pos" if name in posn else "neg")
                    rest = {n_ for v, n_ in variants.items() if v not in listed}
                    if rest:
                        mp.setdefault(t["else"], set()).update("pos" if n_ in posn else "neg" for n_ in rest)
                    res = (src_bb, {tb: (next(iter(s)) if len(s) == 1 else None) for tb, s in mp.items()})
                elif kind == "place" and t["dty"] == "bool" and obj.root[0] == "call" and obj.proj == ("?",):
                    # bool payload of `f()?`
                    mp = {}
                    for v, tb in t["ts"]:
                        val = (v != "0") == pol
                        mp[tb] = "ppos" if val else "pneg"
                    if t["else"] not in mp:
                        listed_true = any(v != "0" for v, _ in t["ts"])
                        val = (not listed_true) == pol
                        mp[t["else"]] = "ppos" if val else "pneg"
                    res = (obj.root[2], mp)
                elif kind == "call" and t["dty"] == "bool":
                    c = obj
                    t2 = an.tail2(c.callee)
                    src_bb = c.bb
                    flip = False
                    if t2 in ("Option::is_some", "Option::is_none", "Result::is_ok", "Result::is_err"):
                        inner = an.trace_operand(body, c.args[0], through_calls=False)
                        if inner.root[0] != "call":
                            inner = an.trace_operand(body, c.args[0])
                        if inner.root[0] == "call":
                            src_bb = inner.root[2]
                            flip = t2 in ("Option::is_none", "Result::is_err")
                        else:
                            continue
                    truth_pos = pol != flip
                    mp = {}
                    for v, tb in t["ts"]:
                        val = (v != "0")
                        mp[tb] = "pos" if (val == truth_pos) else "neg"
                    if t["else"] not in mp:
                        # else edge = the value not listed
                        listed_true = any(v != "0" for v, _ in t["ts"])
                        val = not listed_true
                        mp[t["else"]] = "pos" if (val == truth_pos) else "neg"
                    res = (src_bb, mp)
                if res:
                    break
        self._edge_cache[key] = res
        return res

    # ------------------------------------------------------------------------------------------
    def explore(self, body, start_block, start_state, region=None, stop_at=None, max_states=60000):
        """Worklist exploration.  State = (eof, prog, pending frozenset((bb, kind)), ret).
        Returns dict block -> set(states at block entry), plus list of (state) arriving at stop_at via an edge."""
        seen = {}
        arrivals = []
        work = [(start_block, start_state, None)]
        count = 0
        complete = True
        parents = getattr(self, "_parents", None)
        while work:
            item = work.pop()
            b, st, frm = item[0], item[1], item[2]
            if parents is not None and len(item) > 3:
                parents.setdefault((b, st), (frm, item[3]))
            if stop_at is not None and b == stop_at and frm is not None:
                arrivals.append((st, frm))
                continue
            if region is not None and b not in region:
                continue
            if st in seen.setdefault(b, set()):
                continue
            seen[b].add(st)
            count += 1
            if count > max_states:
                complete = False
                break
            eof, prog, pending, ret, lv = st
            pend = dict(pending)
            lvd = dict(lv)
            # statements: track what the return place holds, and constants / call results held by multi-def locals
            for s in body.stmts(b):
                if s["k"] == "assign" and not s["p"].get("p") and s["p"]["l"] != 0:
                    l_ = s["p"]["l"]
                    if l_ in self._multi(body):
                        rv = s["rv"]
                        if rv["k"] == "use" and rv["op"]["k"] == "const" and rv["op"]["c"].get("ty") == "bool":
                            lvd[l_] = bool(rv["op"]["c"].get("v"))
                        elif rv["k"] == "use" and "p" in rv["op"] and not rv["op"]["p"].get("p"):
                            src = an.trace_operand(body, Operand(rv["op"]), through_calls=False)
                            if src.root[0] == "call":
                                lvd[l_] = ("call", src.root[2])
                            elif rv["op"]["p"]["l"] in lvd:
                                lvd[l_] = lvd[rv["op"]["p"]["l"]]
                            else:
                                lvd.pop(l_, None)
                        else:
                            lvd.pop(l_, None)
                if s["k"] == "assign" and s["p"]["l"] == 0 and not s["p"].get("p"):
                    ret = ret_tag(body, s["rv"], lvd)
                if s["k"] == "assign" and not s["p"].get("p") and s["p"]["l"] in self._multi(body) and s["rv"]["k"] == "agg" and s["rv"].get("variant") in ("Some", "None") and s["rv"].get("adt", "").endswith("option::Option"):
                    lvd[s["p"]["l"]] = s["rv"]["variant"].lower()
            t = body.term(b)
            k = t["k"]
            eff = self.block_effect(body, b) if k == "call" else None
            if eff and eff[0] == "ctx":
                # callee summary depends on whether the cursor is known not to be at the end on entry
                eff = eff[2] if eof == "N" else eff[1]
            if eff:
                if eff[0] == "next":
                    if eof in ("N", "M"):
                        prog, eof = True, "U"
                        pend = {bb_: kd for bb_, kd in pend.items() if kd not in ("PEEK", "NCI")}
                        pend[b] = "NEXTDONE"
                    elif eof == "E":
                        pend[b] = "NEXTEOF"
                    else:
                        pend[b] = "NEXT"
                elif eff[0] == "peek":
                    pend[b] = "PEEK"
                elif eff[0] == "nci":
                    pend[b] = "NCI"
                elif eff[0] == "snap":
                    pend[b] = ("SNAP", eof, prog)
                elif eff[0] == "rewind":
                    snap = pend.get(eff[1]) if eff[1] is not None else None
                    if isinstance(snap, tuple) and snap[0] == "SNAP":
                        # back to a position recorded earlier in this invocation: the facts known there hold again
                        eof, prog = snap[1], snap[2]
                        pend = {bb_: kd for bb_, kd in pend.items() if isinstance(kd, tuple) and kd[0] == "SNAP"}
                    else:
                        prog, eof = False, "U"
                        pend = {bb_: kd for bb_, kd in pend.items() if isinstance(kd, tuple) and kd[0] == "SNAP"}
                elif eff[0] == "advance":
                    prog, eof = True, "U"
                    pend = {bb_: kd for bb_, kd in pend.items() if kd not in ("PEEK", "NCI")}
                elif eff[0] == "cond":
                    pend[b] = eff[1]
                    # the callee may have moved the cursor even when it fails: peek facts are stale
                    pend = {bb_: kd for bb_, kd in pend.items() if kd not in ("PEEK", "NCI") or bb_ == b}
                    if eof == "N":
                        eof = "M"  # not at the end unless the callee consumed input (callees never rewind before their entry)
                elif eff[0] == "unknown_call":
                    pend = {bb_: kd for bb_, kd in pend.items() if kd not in ("PEEK", "NCI")}
                    if eof == "N":
                        eof = "M"
            if k == "call":
                c = body.call_at(b)
                if c is not None and c.dest is not None and c.dest.local == 0 and not c.dest.proj:
                    if c.callee and c.callee.endswith("FromResidual::from_residual"):
                        ret = "err"
                    else:
                        ret = ("call", b)
                elif c is not None and c.dest is not None and not c.dest.proj and c.dest.local in self._multi(body):
                    lvd[c.dest.local] = ("call", b)
            if len(pend) > 6:
                # keep the most recent entries only (bounded state)
                keep = sorted(pend.items(), key=lambda kv: kv[0])[-6:]
                pend = dict(keep)
            if len(lvd) > 8:
                lvd = dict(sorted(lvd.items())[-8:])
            base = (eof, prog, frozenset(pend.items()), ret, frozenset(lvd.items()))
            succs = body.succ(b)
            if k == "switch" and b not in body._const_switch:
                src = self.switch_source(body, b)
                # a bool temp holding a known constant (`matches!(..)` lowering): only one edge is feasible
                dop = Operand(t["d"])
                if dop.place is not None and not dop.place.proj and isinstance(lvd.get(dop.place.local), bool) and t["dty"] == "bool":
                    val = lvd[dop.place.local]
                    tgt = t["else"]
                    for v_, tb_ in t["ts"]:
                        if (v_ != "0") == val:
                            tgt = tb_
                    work.append((tgt, base, b, st))
                    continue
                if src is not None and src[0] == "local":
                    # discriminant of a multi-def local: resolve to the call that last wrote it
                    lvv = lvd.get(src[1])
                    src = (lvv[1], src[2]) if isinstance(lvv, tuple) else None
                for tb in succs:
                    ns = base
                    if src is not None:
                        sbb, mp = src
                        pol = mp.get(tb)
                        kd = pend.get(sbb)
                        if pol is not None and kd is not None:
                            ns = self._apply(base, sbb, kd, pol)
                            if ns is None:
                                continue
                    work.append((tb, ns, b, st))
            else:
                for tb in succs:
                    work.append((tb, base, b, st))
        return seen, arrivals, complete

    def _multi(self, body):
        m = getattr(body, "_multi_def_locals", None)
        if m is None:
            cnt = {}
            for bb, i, pl, rv, s in body.assignments():
                if not pl.proj:
                    cnt[pl.local] = cnt.get(pl.local, 0) + 1
            for c in body.calls():
                if c.dest is not None and not c.dest.proj:
                    cnt[c.dest.local] = cnt.get(c.dest.local, 0) + 1
            m = {l for l, n in cnt.items() if n > 1}
            body._multi_def_locals = m
        return m

    @staticmethod
    def _apply(st, sbb, kind, pol):
        eof, prog, pending, ret, lv = st
        pend = dict(pending)
        if eof == "M" and kind in ("PEEK", "NEXT") and pol == "neg":
            # was not at the end before an intervening call, is at the end now: that call consumed input
            prog = True
        if kind == "NEXT":
            if pol == "pos":
                if eof == "E":
                    return None
                prog, eof = True, "U"
                pend = {b: k for b, k in pend.items() if k not in ("PEEK", "NCI")}
                pend[sbb] = "NEXTDONE"
            else:
                if eof == "N":
                    return None
                eof = "E"
                pend[sbb] = "NEXTEOF"
        elif kind == "NEXTDONE":
            if pol == "neg":
                return None
        elif kind == "NEXTEOF":
            if pol == "pos":
                return None
        elif kind == "PEEK":
            if pol == "pos":
                if eof == "E":
                    return None
                eof = "N"
            else:
                if eof == "N":
                    return None
                eof = "E"
        elif kind == "NCI":
            if pol == "pos":
                if eof == "E":
                    return None
                eof = "N"
        elif kind == "RESPW":
            if pol == "ppos":
                if eof == "E":
                    return None
                prog, eof = True, "U"
                pend = {b: k for b, k in pend.items() if k not in ("PEEK", "NCI")}
                pend[sbb] = "DONE"
        elif kind in ("RESP", "BOOLP", "OPTP"):
            if pol in ("ppos", "pneg"):
                return (eof, prog, frozenset(pend.items()), ret, lv)
            if pol == "pos":
                if eof == "E":
                    return None  # a call that consumes on success cannot succeed at end of input
                prog, eof = True, "U"
                pend = {b: k for b, k in pend.items() if k not in ("PEEK", "NCI")}
                pend[sbb] = "DONE"
        elif kind == "DONE":
            if pol == "neg":
                return None
        return (eof, prog, frozenset(pend.items()), ret, lv)

    # ------------------------------------------------------------------------------------------
    def summarize(self, body, entry="U"):
        """'strong': every successful return consumed input; 'weak': every successful return with a positive payload
        (Ok(true)/Ok(Some)/true/Some) consumed input; None otherwise."""
        kind = ret_kind(body)
        start = (entry, False, frozenset(), None, frozenset())
        seen, _, complete = self.explore(body, 0, start)
        if not complete:
            return None
        strong, weak, any_ok = True, True, False
        for e in body.exits():
            for st in seen.get(e, ()):
                eof, prog, pending, ret, lv = self._after_block(body, e, st)
                pend = dict(pending)
                negative = False
                if kind == "result":
                    if ret == "err":
                        continue
                    if ret in ("ok_false", "ok_none"):
                        negative = True
                elif kind == "bool":
                    if ret == "false":
                        negative = True
                elif kind == "option":
                    if ret == "none":
                        negative = True
                if isinstance(ret, tuple):
                    kd = pend.get(ret[1])
                    # the callee's result is returned as is: its guarantees carry over
                    if kd in ("RESP", "DONE", "NEXTDONE"):
                        any_ok = True
                        continue
                    if kd in ("RESPW", "BOOLP", "OPTP", "NEXT"):
                        any_ok = True
                        if not prog:
                            strong = False
                        continue
                any_ok = True
                if not prog:
                    strong = False
                    if not negative:
                        weak = False
        if not any_ok:
            # no successful return at all (always Err / diverges): "success implies progress" holds vacuously
            return "strong" if kind == "result" else None
        if kind in ("bool", "option"):
            return "weak" if weak else None
        if strong:
            return "strong"
        if weak and kind == "result":
            return "weak"
        return None

    def _after_block(self, body, b, st):
        eof, prog, pending, ret, lv = st
        lvd = dict(lv)
        for s in body.stmts(b):
            if s["k"] == "assign" and s["p"]["l"] == 0 and not s["p"].get("p"):
                ret = ret_tag(body, s["rv"], lvd)
        return eof, prog, pending, ret, lv

    def _load_or_compute(self):
        import json, os
        path = _summ_cache_path(self.prog)
        if os.path.exists(path):
            try:
                with open(path) as fh:
                    j = json.load(fh)
                self.summ = {(k.rsplit("@", 1)[0], k.rsplit("@", 1)[1]): v for k, v in j["summ"].items()}
                self.rounds = j["rounds"]
                if {(b.path, "U") for b in self.bodies} <= set(self.summ):
                    self._edge_cache = {}
                    return
            except Exception:
                pass
            self.summ = {}
        self._compute_summaries()
        try:
            tmp = path + ".%d" % os.getpid()
            with open(tmp, "w") as fh:
                json.dump({"rounds": self.rounds, "summ": {"%s@%s" % k: v for k, v in self.summ.items()}}, fh)
            os.replace(tmp, path)
        except OSError:
            pass

    def _compute_summaries(self):
        rank = {None: 0, "weak": 1, "strong": 2}
        for b in self.bodies:
            self.summ[(b.path, "U")] = None
            self.summ[(b.path, "N")] = None
        changed = True
        rounds = 0
        while changed and rounds < 12:
            changed = False
            rounds += 1
            self._edge_cache = {}
            for b in self.bodies:
                for entry in ("U", "N"):
                    if self.summ[(b.path, entry)] == "strong":
                        continue
                    lvl = self.summarize(b, entry)
                    if rank[lvl] > rank[self.summ[(b.path, entry)]]:
                        self.summ[(b.path, entry)] = lvl
                        changed = True
        self.rounds = rounds

    # ------------------------------------------------------------------------------------------
    def loop_witness(self, body, header, blocks):
        """Source lines along one cycle that returns to the loop head without progress."""
        self._parents = {}
        try:
            start = ("U", False, frozenset(), None, frozenset())
            seen, arrivals, complete = self.explore(body, header, start, region=blocks, stop_at=header)
            bad = [(st, frm) for st, frm in arrivals if not st[1]]
            if not bad:
                return []
            st, frm = bad[0]
            path = []
            cur = (header, st)
            guard = 0
            while cur in self._parents and guard < 400:
                pb, pst = self._parents[cur]
                if pb is None:
                    break
                path.append(pb)
                if pb == header:
                    break
                cur = (pb, pst)
                guard += 1
            path.reverse()
            lines = []
            for b in path:
                t = body.term(b)
                l = t["span"]["l"]
                c = body.call_at(b)
                desc = "%d" % l + (":" + (c.name() or "?").rsplit("::", 1)[-1] if c else "")
                if not lines or lines[-1] != desc:
                    lines.append(desc)
            return lines
        finally:
            self._parents = None

    def check_loop(self, body, header, blocks):
        """('proven', why) | ('iterator', type) | ('unproven', witness blocks) ; plus refutation flag."""
        # iterator-driven?
        it = self._iterator_driven(body, header, blocks)
        start = ("U", False, frozenset(), None, frozenset())
        seen, arrivals, complete = self.explore(body, header, start, region=blocks, stop_at=header)
        bad = [(st, frm) for st, frm in arrivals if not st[1]]
        refuted = None
        if bad or not complete:
            refuted = self.refute(body, header, blocks)
        if complete and not bad and arrivals:
            return ("proven", "every cycle consumes input (%d back-edge states)" % len(arrivals)), None
        if complete and not arrivals:
            return ("proven", "no feasible cycle"), None
        if it:
            return ("iterator", it), refuted
        return ("unproven", sorted({frm for st, frm in bad})), refuted

    def _iterator_driven(self, body, header, blocks):
        for b in sorted(blocks):
            c = body.call_at(b)
            if c is None:
                continue
            if an.tail2(c.callee) == "Iterator::next" and (c.name() or "") != NEXT:
                ty = c.fn_args[0] if c.fn_args else ""
                if ty.endswith("lexer::Lexer") or "lexer::Lexer" in ty:
                    continue
                if any(ty.lstrip("&mut ").startswith(f) or f in ty for f in FINITE_ITERS):
                    # every cycle passes this call: removing the block disconnects header from the latches
                    rest = blocks - {b}
                    if b == header or not self._cycle_without(body, header, rest):
                        return ty
        return None

    @staticmethod
    def _cycle_without(body, header, region):
        """Is there a cycle header -> ... -> header using only `region` blocks?"""
        if header not in region:
            return False
        seen = set()
        st = [s for s in body.succ(header) if s in region]
        while st:
            x = st.pop()
            if x == header:
                return True
            if x in seen:
                continue
            seen.add(x)
            st.extend(s for s in body.succ(x) if s in region)
        return False

    def refute(self, body, header, blocks):
        """Assume end of input at the loop head: is there a cycle on which every branch is forced?"""
        start = ("E", False, frozenset(), None, frozenset())
        # deterministic walk: follow only forced edges
        b = header
        st = start
        path = []
        visited = set()
        for _ in range(400):
            if (b, st) in visited:
                return None
            visited.add((b, st))
            path.append(b)
            seen, arr, complete = self.explore(body, b, st, region={b}, stop_at=None)
            # compute successors with states by one-step exploration
            nxt = self._step(body, b, st)
            nxt = [(tb, ns) for tb, ns in nxt if tb in blocks or tb == header]
            feasible = self._step(body, b, st)
            if len(feasible) != 1:
                return None  # data-dependent branch: cannot conclude
            tb, ns = feasible[0]
            if ns[1]:
                return None  # progress although at EOF cannot happen; treat as not refuted
            if tb == header:
                return path + [header]
            if tb not in blocks:
                return None
            b, st = tb, ns
        return None

    def _step(self, body, b, st):
        """One-block transfer returning feasible (successor, state) pairs."""
        out = []
        seen, arrivals, complete = self.explore(body, b, st, region={b}, stop_at=None, max_states=10)
        # explore() with region={b} processes b and queues successors, which are then dropped; recompute edges explicitly
        eof, prog, pending, ret, lv = st
        # replicate the transfer by exploring with a fake stop: use stop_at for each successor
        for tb in body.succ(b):
            s2, arr, _ = self.explore(body, b, st, region={b}, stop_at=tb if tb != b else None, max_states=10)
            for ns, frm in arr:
                out.append((tb, ns))
        return out


_engine = {}


def engine(prog):
    if id(prog) not in _engine:
        sys.setrecursionlimit(max(20000, sys.getrecursionlimit()))
        _engine[id(prog)] = Engine(prog)
    return _engine[id(prog)]


# ---------------------------------------------------------------------------------------------
# Loops the prover cannot discharge on the pinned tree, each read by hand.  Key = "<function>#<k>" with k the ordinal of
# the loop among the function's loops in source order.  One reason each: the ranking argument the engine cannot see.
REVIEWED = {
    "<grass_compiler::parse::sass::SassParser as grass_compiler::parse::stylesheet::StylesheetParser>::parse_statements#0":
        "indented-syntax top level: when parse_child returns Ok(None) on a blank line nothing is consumed, but the loop guard peek().is_some() "
        "plus read_indentation() (set_cursor(next_indentation_end), which peek_indentation placed after a scanned '\\n') moves forward; "
        "the engine treats set_cursor from a struct field as an arbitrary rewind",
    "grass_compiler::parse::base::BaseParser::try_parse_url#0":
        "whitespace arm: the peeked token is whitespace, so whitespace_without_comments() consumes it (value-dependent: the engine does not "
        "track token kinds); every other arm calls next() or leaves the loop",
    "grass_compiler::parse::stylesheet::StylesheetParser::try_url_contents#0":
        "same shape as try_parse_url: the whitespace arm consumes the peeked whitespace token; all other arms consume or break",
    "grass_compiler::parse::sass::SassParser::while_indented_lower#0":
        "peek_indentation()? > parent_indentation >= 0 implies peek_indentation scanned a '\\n' and recorded next_indentation_end beyond it; "
        "read_indentation() then moves the cursor there (forward).  Field-carried cursor positions are outside the abstract state",
    "grass_compiler::parse::stylesheet::StylesheetParser::parse_children#0":
        "default arm calls the `child` fn pointer (parse_statement / parse_declaration_child / parse_function_child ...): these return Ok only "
        "after consuming a statement, but their progress depends on parse_number/identifier value checks the engine cannot summarise; the "
        "loop guard peek() is Some so the input is not at its end, and every other arm consumes a token",
    "grass_compiler::parse::stylesheet::StylesheetParser::parse_statements#0":
        "as parse_children: default arm delegates to the `statement` fn pointer, whose Ok(None) results (e.g. @charset) are returned after "
        "consuming the rule; every other arm consumes a token",
    "grass_compiler::parse::stylesheet::StylesheetParser::parse_if_rule#0":
        "scan_else returning Ok(true) has consumed '@else' (the `elseif` branch rewinds by 2 after consuming 7 characters, a value the engine "
        "does not track); the SassParser override consumes via read_indentation",
    "grass_compiler::parse::value::ValueParser::add_operator#0":
        "not a lexer loop: ranked by the length of binary_operators — resolve_one_operation() pops one operator on every Ok return and "
        "nothing in the cycle pushes",
    "grass_compiler::parse::value::ValueParser::resolve_operations#0":
        "not a lexer loop: ranked by the length of binary_operators — the loop leaves when it is empty and resolve_one_operation() pops one",
    "grass_compiler::parse::value::ValueParser::parse_value#0":
        "main expression loop: each arm is entered on a peeked token and consumes it through parse_number / parse_identifier_like / "
        "parse_paren_expr ...; parse_number's progress rests on `raw_text(start).parse().unwrap()` panicking on empty text and on digit "
        "checks (value-dependent); arms that do not consume break out of the loop",
}

FLOOR_LOOPS = 84
FLOOR_PROVEN = 67


def _summ_cache_path(prog):
    import hashlib, os
    with open(__file__, "rb") as fh:
        h = hashlib.sha1(fh.read())
    for m in (an, common):
        with open(m.__file__.replace(".pyc", ".py"), "rb") as fh:
            h.update(fh.read())
    return os.path.join(prog.dir, "loops-%s.summ" % h.hexdigest()[:12])


def loop_key(body, header, all_headers):
    order = sorted(all_headers, key=lambda h: (body.term(h)["span"]["l"], h))
    return "%s#%d" % (body.path, order.index(header))


def rule(ctx):
    r = RuleResult("C01-c", "every loop of the parsers consumes input on every cycle, is driven by a finite std iterator, or is a reviewed exception; "
                   "no loop has a forced cycle at end of input")
    prog = ctx.prog()
    e = engine(prog)
    n_loops = n_proven = n_iter = n_rev = 0
    seen_keys = set()
    for b in sorted(e.bodies, key=lambda b: b.path):
        loops_ = natural_loops(b)
        for h, blk in sorted(loops_.items()):
            n_loops += 1
            key = loop_key(b, h, loops_.keys())
            where = "%s:%d" % (b.file, b.term(h)["span"]["l"])
            v, refuted = e.check_loop(b, h, blk)
            if refuted:
                lines = []
                for x in refuted:
                    l = b.term(x)["span"]["l"]
                    if not lines or lines[-1] != l:
                        lines.append(l)
                r.violate(key + "|forced-cycle-at-eof",
                          "loop at %s: assuming the input is exhausted at the loop head, every branch on the cycle through lines %s is forced and none "
                          "consumes input or returns — the parser does not terminate on an input that ends here" % (where, lines), where)
                continue
            if v[0] == "proven":
                n_proven += 1
                r.ok(key, how=v[1], where=where)
            elif v[0] == "iterator":
                n_iter += 1
                r.ok(key, how="driven by finite iterator " + v[1], where=where)
            elif key in REVIEWED:
                n_rev += 1
                seen_keys.add(key)
                r.ok(key, how="reviewed: " + REVIEWED[key], where=where)
            else:
                wit = e.loop_witness(b, h, blk)
                r.violate(key + "|no-progress-cycle",
                          "loop at %s: a cycle returns to the loop head on which no call is known to consume input (%s); the loop is neither "
                          "iterator-driven nor one of the %d reviewed exceptions" % (where, " -> ".join(wit[:24]), len(REVIEWED)), where)
    for k in sorted(set(REVIEWED) - seen_keys):
        r.note("reviewed exception no longer needed (loop proven or gone): " + k)
    r.floor("parser loops", n_loops, FLOOR_LOOPS)
    r.floor("loops proven by the lexer-state analysis", n_proven, FLOOR_PROVEN - 4)
    strong = sum(1 for (p, en), v in e.summ.items() if en == "U" and v == "strong")
    r.note("%d parser functions summarised over %d rounds (%d 'success implies progress' strong at unknown entry); %d loops: %d proven, %d iterator-driven, %d reviewed"
           % (len(e.bodies), e.rounds, strong, n_loops, n_proven, n_iter, n_rev))
    return r
