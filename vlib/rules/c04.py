"""C04 — nesting, `&`, @at-root and bubbling: CSS-tree cursor discipline."""
from ..core import RuleResult
from ..facts import AnchorMissing, Operand, Place
from .. import an, psa
from . import common, pairing, c03

EXPECTED = [
    "grass_compiler::evaluate::visitor::Visitor::execute::{closure#1}|flag:IN_UNKNOWN_AT_RULE",
    "grass_compiler::evaluate::visitor::Visitor::execute::{closure#1}|flag:AT_ROOT_EXCLUDING_STYLE_RULE",
    "grass_compiler::evaluate::visitor::Visitor::execute::{closure#1}|flag:IN_KEYFRAMES",
    "grass_compiler::evaluate::visitor::Visitor::execute::{closure#1}|field:parent",
    "grass_compiler::evaluate::visitor::Visitor::execute::{closure#1}|field:style_rule_ignoring_at_root",
    "grass_compiler::evaluate::visitor::Visitor::execute::{closure#1}|field:media_queries",
    "grass_compiler::evaluate::visitor::Visitor::execute::{closure#1}|field:declaration_name",
    "grass_compiler::evaluate::visitor::Visitor::execute::{closure#1}|swap:extender",
    "grass_compiler::evaluate::visitor::Visitor::visit_dynamic_import_rule::{closure#0}|field:parent",
    "grass_compiler::evaluate::visitor::Visitor::visit_ruleset|flag:AT_ROOT_EXCLUDING_STYLE_RULE",
    "grass_compiler::evaluate::visitor::Visitor::visit_ruleset|field:style_rule_ignoring_at_root",
    "grass_compiler::evaluate::visitor::Visitor::visit_style|field:declaration_name",
    "grass_compiler::evaluate::visitor::Visitor::visit_unknown_at_rule|flag:IN_KEYFRAMES",
    "grass_compiler::evaluate::visitor::Visitor::visit_unknown_at_rule|flag:IN_UNKNOWN_AT_RULE",
    "grass_compiler::evaluate::visitor::Visitor::with_media_queries|field:media_queries",
    "grass_compiler::evaluate::visitor::Visitor::with_media_queries|field:media_query_sources",
    "grass_compiler::evaluate::visitor::Visitor::with_parent|field:parent",
    "grass_compiler::evaluate::visitor::Visitor::with_scope_for_at_root|flag:AT_ROOT_EXCLUDING_STYLE_RULE",
    "grass_compiler::evaluate::visitor::Visitor::with_scope_for_at_root|field:parent",
]
REVIEWED_OPEN = {
    "grass_compiler::evaluate::visitor::Visitor::visit_dynamic_import_rule::{closure#0}|field:parent":
        "the write and the restore are both under the same captured constant `loads_user_defined_modules` (true); the analysis cannot correlate the two tests of a captured variable",
}


def rule_a(ctx):
    return c03.pairing_rule(ctx, "C04-a", "the CSS-tree cursor (parent, style rule, media queries, declaration name, at-root/keyframes flags) is restored on every non-Err exit",
                            True, EXPECTED, REVIEWED_OPEN, 19)


TREE = "grass_compiler::evaluate::css_tree::CssTree"


def rule_b(ctx):
    r = RuleResult("C04-b", "the parent/child index maps of the CSS tree are only mutated, together, by CssTree::add_child / link_child_to_parent")
    prog = ctx.prog()
    mut = {}
    for b in prog.bodies.values():
        if b.crate != "grass_compiler":
            continue
        for c in b.calls():
            t2 = an.tail2(c.callee)
            if not c.args or c.args[0].place is None:
                continue
            if t2 in ("BTreeMap::insert", "BTreeMap::remove", "BTreeMap::entry", "BTreeMap::get_mut", "BTreeMap::clear", "BTreeMap::retain", "BTreeMap::append"):
                ap = repr(an.trace_operand(b, c.args[0]))
                for f in ("parent_to_child", "child_to_parent"):
                    if ap.endswith("." + f) and ("css_tree" in ap or b.root.startswith(TREE)):
                        mut.setdefault(b.root, set()).add(f)
    for root, fields in sorted(mut.items()):
        key = "tree-maps|%s" % root
        if root in (TREE + "::add_child", TREE + "::link_child_to_parent"):
            if fields == {"parent_to_child", "child_to_parent"}:
                r.ok(key, fields=sorted(fields))
            else:
                r.violate(key, "%s updates only %s: parent_to_child and child_to_parent must be updated together" % (root, sorted(fields)))
        else:
            r.violate(key, "%s mutates the CSS tree's %s directly; only CssTree::add_child/link_child_to_parent may" % (root, sorted(fields)))
    r.floor("tree mutators", len(mut), 2)
    # the fields are not reachable for mutation from outside: pub fields are only *read* elsewhere (checked above by the mutation scan)
    return r


def rule_c(ctx):
    r = RuleResult("C04-c", "add_child copies the parent exactly when it has a following sibling; bubbling at-rules re-create the style rule exactly when one exists (sibling agreement)")
    prog = ctx.prog()
    b = prog.one("Visitor::add_child")
    cp = [c for bb in prog.family(b) for c in bb.calls() if (c.name() or "").endswith("CssStmt::copy_without_children")]
    maps = [c for c in b.calls() if an.tail2(c.callee) == "Option::map" and "copy_without_children" in repr([an.trace_operand(b, a) for a in c.args])]
    site = maps[0] if maps else (cp[0] if cp and cp[0].body is b else None)
    if site is None:
        r.violate("add_child|copy", "Visitor::add_child no longer copies the parent (copy_without_children)", b.loc())
    else:
        facts_at = an.bool_guard_calls(b, site.bb)
        if any(kind == "call" and (obj.name() or "").endswith("CssTree::has_following_sibling") and truth is True for kind, obj, truth, d in facts_at):
            r.ok("add_child|copy-under-has_following_sibling")
        else:
            r.violate("add_child|copy-under-has_following_sibling", "add_child copies the parent node without has_following_sibling(parent) being true (or copies unconditionally)", site.loc())
        # and conversely: the plain add uses the (possibly replaced) parent
    # bubbling visitors
    shapes = {}
    for fn in ("visit_media_rule", "visit_supports_rule", "visit_unknown_at_rule"):
        vb = prog.one("Visitor::" + fn)
        fam = prog.family(vb)
        info = []
        for x in fam:
            for c in x.calls():
                if (c.name() or "").endswith("Visitor::style_rule_exists"):
                    # RuleSet re-created on the `true` edge
                    for swb, pol in common.switches_on_call(x, c):
                        tb = common.bool_edge(x, swb, pol)
                        ob = common.bool_edge(x, swb, not pol)
                        excl = common.reach_from(x, tb) - common.reach_from(x, ob)
                        creates = any(bb in excl and rv["k"] == "agg" and rv.get("variant") == "RuleSet" for bb, i, pl, rv, s in x.assignments())
                        excl_o = common.reach_from(x, ob) - common.reach_from(x, tb)
                        creates_other = any(bb in excl_o and rv["k"] == "agg" and rv.get("variant") == "RuleSet" for bb, i, pl, rv, s in x.assignments())
                        info.append((creates, creates_other))
        shapes[fn] = info
        key = "%s|style-rule-recreated-iff-style_rule_exists" % fn
        if info and all(cr and not other for cr, other in info):
            r.ok(key)
        elif not info:
            r.violate(key, "Visitor::%s no longer consults style_rule_exists(): declarations directly inside the at-rule would have no style rule to go to (or get one at top level)" % fn, vb.loc())
        else:
            r.violate(key, "Visitor::%s re-creates the enclosing style rule on the wrong branch of style_rule_exists() (true-branch creates=%s, false-branch creates=%s)" % (fn, info[0][0], info[0][1]), vb.loc())
    return r



def rule_d(ctx):
    r = RuleResult("C04-d", "@at-root evaluates its body inside the innermost kept ancestor: the parent handed to with_scope_for_at_root is the first copy "
                   "made (of included.first()), not a loop-carried outer copy")
    from . import loops as _loops
    prog = ctx.prog()
    b = prog.one("evaluate::visitor::Visitor::visit_at_root_rule")
    sites = [c for c in b.calls() if (c.name() or "").endswith("Visitor::with_scope_for_at_root")]
    if len(sites) != 1:
        raise AnchorMissing("visit_at_root_rule: expected one call of with_scope_for_at_root, found %d" % len(sites))
    c = sites[0]
    nl = _loops.natural_loops(b)
    in_loop = set().union(*nl.values()) if nl else set()

    def origin(local, depth=0):
        """Follow plain moves to the local(s) that are really defined."""
        defs = b.defs_of(local)
        if depth < 8 and len(defs) == 1 and isinstance(defs[0][2], dict) and defs[0][2]["k"] == "use" and "p" in defs[0][2]["op"] and not defs[0][2]["op"]["p"].get("p"):
            return origin(defs[0][2]["op"]["p"]["l"], depth + 1)
        return local

    payloads = []
    l0 = origin(c.args[1].place.local) if c.args[1].place is not None else None
    for bb, i, d in (b.defs_of(l0) if l0 is not None else []):
        if isinstance(d, dict) and d["k"] == "agg" and d.get("variant") == "Some" and "p" in d["ops"][0]:
            payloads.append(origin(d["ops"][0]["p"]["l"]))
    if not payloads:
        raise AnchorMissing("visit_at_root_rule: no `Some(copy)` definition of the new parent")
    for pl in payloads:
        defs = b.defs_of(pl)
        loop_defs = [bb for bb, i, d in defs if bb in in_loop]
        key = "visit_at_root_rule|body-parent-is-innermost-copy"
        # `included` is ordered innermost -> outermost (it is filled while walking up from self.parent); a copy variable that is
        # reassigned in a loop ends up as the copy of the *last* element visited: fine when the loop runs over Rev<..>, wrong otherwise
        rev = False
        for h, blk in nl.items():
            if any(bb in blk for bb in loop_defs):
                hc = [b.call_at(x) for x in blk if b.call_at(x) is not None and an.tail2(b.call_at(x).callee) == "Iterator::next"]
                rev = any(cc.fn_args and "iter::adapters::rev::Rev" in cc.fn_args[0] for cc in hc)
        if loop_defs and rev:
            r.ok(key, how="copies are made from the outermost kept ancestor inwards; the last copy is the innermost")
        elif loop_defs:
            r.violate(key, "visit_at_root_rule hands with_scope_for_at_root a copy that is reassigned inside the loop over the kept ancestors (the outermost copy): the body of "
                      "`@at-root (without: ...)` is attached to the outermost kept ancestor instead of the innermost, so declarations land directly inside an at-rule", c.loc())
        else:
            first = any(not isinstance(d, dict) and (d.name() or "").endswith("CssTree::add_stmt") for bb, i, d in defs)
            kept_root = bool(defs) and all(not isinstance(d, dict) and (d.name() or "").endswith("Visitor::trim_included") for bb, i, d in defs)
            if first:
                r.ok(key)
            elif kept_root:
                r.ok(key + "|nothing-to-copy", how="the kept root returned by trim_included is used directly")
            else:
                r.violate(key, "the parent of the @at-root body is not the copy created by CssTree::add_stmt for included.first()", c.loc())
    return r


RULES = [rule_a, rule_b, rule_c, rule_d]
