"""C04 — nesting, `&`, @at-root and bubbling: CSS-tree cursor discipline."""
from ..core import RuleResult
from ..facts import AnchorMissing, Operand, Place
from .. import an, psa
from . import common, pairing, c03

EXPECTED = [
    "grass_compiler::evaluate::visitor::Visitor::execute::{closure#1}|flag:IN_UNKNOWN_AT_RULE",
    "grass_compiler::evaluate::visitor::Visitor::execute::{closure#1}|flag:AT_ROOT_EXCLUDING_STYLE_RULE",
    "grass_compiler::evaluate::visitor::Visitor::execute::{closure#1}|flag:IN_KEYFRAMES",
    "grass_compiler::evaluate::visitor::Visitor::execute::{closure#1}|field:parent",
    "grass_compiler::evaluate::visitor::Visitor::execute::{closure#1}|field:style_rule_ignoring_at_root",
    "grass_compiler::evaluate::visitor::Visitor::execute::{closure#1}|field:media_queries",
    "grass_compiler::evaluate::visitor::Visitor::execute::{closure#1}|field:declaration_name",
    "grass_compiler::evaluate::visitor::Visitor::execute::{closure#1}|swap:extender",
    "grass_compiler::evaluate::visitor::Visitor::visit_dynamic_import_rule::{closure#0}|field:parent",
    "grass_compiler::evaluate::visitor::Visitor::visit_ruleset|flag:AT_ROOT_EXCLUDING_STYLE_RULE",
    "grass_compiler::evaluate::visitor::Visitor::visit_ruleset|field:style_rule_ignoring_at_root",
    "grass_compiler::evaluate::visitor::Visitor::visit_style|field:declaration_name",
    "grass_compiler::evaluate::visitor::Visitor::visit_unknown_at_rule|flag:IN_KEYFRAMES",
    "grass_compiler::evaluate::visitor::Visitor::visit_unknown_at_rule|flag:IN_UNKNOWN_AT_RULE",
    "grass_compiler::evaluate::visitor::Visitor::with_media_queries|field:media_queries",
    "grass_compiler::evaluate::visitor::Visitor::with_media_queries|field:media_query_sources",
    "grass_compiler::evaluate::visitor::Visitor::with_parent|field:parent",
    "grass_compiler::evaluate::visitor::Visitor::with_scope_for_at_root|flag:AT_ROOT_EXCLUDING_STYLE_RULE",
    "grass_compiler::evaluate::visitor::Visitor::with_scope_for_at_root|field:parent",
]
REVIEWED_OPEN = {
    "grass_compiler::evaluate::visitor::Visitor::visit_dynamic_import_rule::{closure#0}|field:parent":
        "the write and the restore are both under the same captured constant `loads_user_defined_modules` (true); the analysis cannot correlate the two tests of a captured variable",
}


def rule_a(ctx):
    return c03.pairing_rule(ctx, "C04-a", "the CSS-tree cursor (parent, style rule, media queries, declaration name, at-root/keyframes flags) is restored on every non-Err exit",
                            True, EXPECTED, REVIEWED_OPEN, 19)


TREE = "grass_compiler::evaluate::css_tree::CssTree"


def rule_b(ctx):
    r = RuleResult("C04-b", "the parent/child index maps of the CSS tree are only mutated, together, by CssTree::add_child / link_child_to_parent")
    prog = ctx.prog()
    mut = {}
    for b in prog.bodies.values():
        if b.crate != "grass_compiler":
            continue
        for c in b.calls():
            t2 = an.tail2(c.callee)
            if not c.args or c.args[0].place is None:
                continue
            if t2 in ("BTreeMap::insert", "BTreeMap::remove", "BTreeMap::entry", "BTreeMap::get_mut", "BTreeMap::clear", "BTreeMap::retain", "BTreeMap::append"):
                ap = repr(an.trace_operand(b, c.args[0]))
                for f in ("parent_to_child", "child_to_parent"):
                    if ap.endswith("." + f) and ("css_tree" in ap or b.root.startswith(TREE)):
                        mut.setdefault(b.root, set()).add(f)
    for root, fields in sorted(mut.items()):
        key = "tree-maps|%s" % root
        if root in (TREE + "::add_child", TREE + "::link_child_to_parent"):
            if fields == {"parent_to_child", "child_to_parent"}:
                r.ok(key, fields=sorted(fields))
            else:
                r.violate(key, "%s updates only %s: parent_to_child and child_to_parent must be updated together" % (root, sorted(fields)))
        else:
            r.violate(key, "%s mutates the CSS tree's %s directly; only CssTree::add_child/link_child_to_parent may" % (root, sorted(fields)))
    r.floor("tree mutators", len(mut), 2)
    # the fields are not reachable for mutation from outside: pub fields are only *read* elsewhere (checked above by the mutation scan)
    return r


def rule_c(ctx):
    r = RuleResult("C04-c", "add_child copies the parent exactly when it has a following sibling; bubbling at-rules re-create the style rule exactly when one exists (sibling agreement)")
    prog = ctx.prog()
    b = prog.one("Visitor::add_child")
    cp = [c for bb in prog.family(b) for c in bb.calls() if (c.name() or "").endswith("CssStmt::copy_without_children")]
    maps = [c for c in b.calls() if an.tail2(c.callee) == "Option::map" and "copy_without_children" in repr([an.trace_operand(b, a) for a in c.args])]
    site = maps[0] if maps else (cp[0] if cp and cp[0].body is b else None)
    if site is None:
        r.violate("add_child|copy", "Visitor::add_child no longer copies the parent (copy_without_children)", b.loc())
    else:
        facts_at = an.bool_guard_calls(b, site.bb)
        if any(kind == "call" and (obj.name() or "").endswith("CssTree::has_following_sibling") and truth is True for kind, obj, truth, d in facts_at):
            r.ok("add_child|copy-under-has_following_sibling")
        else:
            r.violate("add_child|copy-under-has_following_sibling", "add_child copies the parent node without has_following_sibling(parent) being true (or copies unconditionally)", site.loc())
        # and conversely: the plain add uses the (possibly replaced) parent
    # bubbling visitors
    shapes = {}
    for fn in ("visit_media_rule", "visit_supports_rule", "visit_unknown_at_rule"):
        vb = prog.one("Visitor::" + fn)
        fam = prog.family(vb)
        info = []
        for x in fam:
            for c in x.calls():
                if (c.name() or "").endswith("Visitor::style_rule_exists"):
                    # RuleSet re-created on the `true` edge
                    for swb, pol in common.switches_on_call(x, c):
                        tb = common.bool_edge(x, swb, pol)
                        ob = common.bool_edge(x, swb, not pol)
                        excl = common.reach_from(x, tb) - common.reach_from(x, ob)
                        creates = any(bb in excl and rv["k"] == "agg" and rv.get("variant") == "RuleSet" for bb, i, pl, rv, s in x.assignments())
                        excl_o = common.reach_from(x, ob) - common.reach_from(x, tb)
                        creates_other = any(bb in excl_o and rv["k"] == "agg" and rv.get("variant") == "RuleSet" for bb, i, pl, rv, s in x.assignments())
                        info.append((creates, creates_other))
        shapes[fn] = info
        key = "%s|style-rule-recreated-iff-style_rule_exists" % fn
        if info and all(cr and not other for cr, other in info):
            r.ok(key)
        elif not info:
            r.violate(key, "Visitor::%s no longer consults style_rule_exists(): declarations directly inside the at-rule would have no style rule to go to (or get one at top level)" % fn, vb.loc())
        else:
            r.violate(key, "Visitor::%s re-creates the enclosing style rule on the wrong branch of style_rule_exists() (true-branch creates=%s, false-branch creates=%s)" % (fn, info[0][0], info[0][1]), vb.loc())
    return r


RULES = [rule_a, rule_b, rule_c]
