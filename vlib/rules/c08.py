"""C08 — units convert by the CSS ratios and unit algebra is consistent (table and guard clauses)."""
import math

from ..core import RuleResult
from ..facts import AnchorMissing, Operand, Place
from .. import an, sl
from ..facts import norm as facts_norm
from . import common, conv

# E3: CSS absolute-unit ratios, expressed as the size of one unit in the class's base unit.
BASE = {
    # lengths in px (1in = 96px = 2.54cm = 25.4mm = 101.6q = 72pt = 6pc)
    "In": 96.0, "Cm": 96.0 / 2.54, "Mm": 96.0 / 25.4, "Q": 96.0 / 101.6, "Pt": 96.0 / 72.0, "Pc": 16.0, "Px": 1.0,
    # angles in deg (1turn = 360deg = 400grad = 2pi rad)
    "Deg": 1.0, "Grad": 360.0 / 400.0, "Rad": 180.0 / math.pi, "Turn": 360.0,
    # time in ms, frequency in Hz
    "S": 1000.0, "Ms": 1.0, "Hz": 1.0, "Khz": 1000.0,
    # resolution in dpi (1dppx = 96dpi, 1dpcm = 2.54dpi)
    "Dpi": 1.0, "Dpcm": 2.54, "Dppx": 96.0,
}
CLASSES = [
    {"In", "Cm", "Mm", "Q", "Pt", "Pc", "Px"},
    {"Deg", "Grad", "Rad", "Turn"},
    {"S", "Ms"},
    {"Hz", "Khz"},
    {"Dpi", "Dpcm", "Dppx"},
]
KIND_OF_CLASS = ["Absolute", "Angle", "Time", "Frequency", "Resolution"]
REL = 1e-12


def close(a, b):
    return abs(a - b) <= REL * max(abs(a), abs(b), 1e-300)


def rule_a(ctx):
    r = RuleResult("C08-a", "every entry of UNIT_CONVERSION_TABLE equals the CSS ratio; table is reciprocal, transitive and closed")
    prog = ctx.prog()
    try:
        T = conv.table(prog)
    except sl.Unextractable as e:
        r.violate("UNIT_CONVERSION_TABLE|shape", "cannot extract UNIT_CONVERSION_TABLE as a table: %s" % e)
        return r
    # duplicate insertions (a later insert silently overwrites an earlier one)
    t = sl.eval_lazy_static(prog, "unit::conversion::UNIT_CONVERSION_TABLE")
    for k in t.duplicates():
        r.violate("table|duplicate-row|%s" % k.name, "UNIT_CONVERSION_TABLE row %s is inserted twice" % k.name)
    for k, row in t.items:
        for kk in row.duplicates():
            r.violate("table|duplicate|%s|%s" % (k.name, kk.name), "UNIT_CONVERSION_TABLE[%s][%s] is inserted twice" % (k.name, kk.name))
    n = 0
    for cls in CLASSES:
        for to in sorted(cls):
            row = T.get(to)
            if row is None:
                r.violate("table|missing-row|%s" % to, "UNIT_CONVERSION_TABLE has no row for %s" % to)
                continue
            if set(row) != cls:
                r.violate("table|row-keys|%s" % to, "UNIT_CONVERSION_TABLE[%s] has keys %s, expected the whole class %s" % (to, sorted(row), sorted(cls)))
            for frm in sorted(cls):
                if frm not in row:
                    continue
                n += 1
                key = "table|%s<-%s" % (to, frm)
                want = BASE[frm] / BASE[to]
                got = row[frm]
                if not isinstance(got, float):
                    r.violate(key, "UNIT_CONVERSION_TABLE[%s][%s] is not a constant expression (%r)" % (to, frm, got))
                elif not close(got, want):
                    r.violate(key, "UNIT_CONVERSION_TABLE[%s][%s] = %r but 1%s = %r %s by the CSS ratios" % (to, frm, got, frm.lower(), want, to.lower()))
                else:
                    r.ok(key, value=got)
    extra = set(T) - set().union(*CLASSES)
    for e in sorted(extra):
        r.violate("table|extra-row|%s" % e, "UNIT_CONVERSION_TABLE has a row for %s, which has no CSS conversion class" % e)
    # coherence (independent of E3): reciprocal, transitive, diagonal
    for to, row in T.items():
        for frm, f in row.items():
            if not isinstance(f, float):
                continue
            back = T.get(frm, {}).get(to)
            key = "coherence|recip|%s|%s" % (to, frm)
            if not isinstance(back, float) or not close(f * back, 1.0):
                r.violate(key, "t[%s][%s] * t[%s][%s] = %r, expected 1" % (to, frm, frm, to, (f * back) if isinstance(back, float) else None))
            else:
                r.ok(key)
            if to == frm:
                if f != 1.0:
                    r.violate("coherence|diag|%s" % to, "t[%s][%s] = %r, expected exactly 1" % (to, to, f))
            for mid, g in T.get(frm, {}).items():
                # to <- frm <- mid  must equal  to <- mid
                direct = row.get(mid)
                if isinstance(g, float) and isinstance(direct, float):
                    if not close(f * g, direct):
                        r.violate("coherence|trans|%s|%s|%s" % (to, frm, mid), "t[%s][%s]*t[%s][%s] = %r but t[%s][%s] = %r" % (to, frm, frm, mid, f * g, to, mid, direct))
    r.floor("conversion table entries", n, 82)
    return r


def comparable_matrix(prog, kind_table):
    """Evaluate the path summaries of Unit::comparable over all pairs of fieldless unit variants."""
    b = prog.one("unit::Unit::comparable")
    paths = common.enum_paths(b, 200)
    summ = []
    for path in paths:
        conds = common.path_conditions(b, path)
        ret = common.path_return(b, path)
        summ.append((conds, ret))
    variants = [v for v in kind_table if v not in ("Unknown", "Complex")]

    def term(ap, env):
        # value of an access path under env {arg1: a, arg2: b}
        if ap.root[0] == "arg" and not ap.proj:
            return ("unit", env[ap.root[1]])
        if ap.root[0] == "const" and isinstance(ap.root[1], str) and ap.root[1].startswith("Unit::"):
            return ("unit", ap.root[1][6:])
        if ap.root[0] == "call" and ap.root[1].endswith("Unit::kind"):
            c = b.call_at(ap.root[2])
            inner = term(an.trace_operand(b, c.args[0]), env)
            return ("kind", kind_table[inner[1]])
        raise sl.Unextractable("comparable(): unrecognised term %r" % (ap,))

    def call_val(c, env):
        t2 = an.tail2(c.callee)
        if t2 in ("PartialEq::eq", "PartialEq::ne"):
            x = term(an.trace_operand(b, c.args[0]), env)
            y = term(an.trace_operand(b, c.args[1]), env)
            return (x == y) if t2.endswith("eq") else (x != y)
        raise sl.Unextractable("comparable(): unrecognised call %s" % c.name())

    M = {}
    for a in variants:
        for bb_ in variants:
            env = {1: a, 2: bb_}
            res = None
            for conds, ret in summ:
                ok = True
                for sw, kind, obj, fact in conds:
                    if kind == "call":
                        if call_val(obj, env) != fact:
                            ok = False
                            break
                    elif kind == "discr":
                        base = an.AP(obj.root, obj.proj[:-1]) if obj.proj and obj.proj[-1] == "<discr>" else obj
                        tv = term(base, env)
                        if tv[1] not in fact:
                            ok = False
                            break
                    else:
                        raise sl.Unextractable("comparable(): unrecognised condition %s" % kind)
                if not ok:
                    continue
                if ret[0] == "const":
                    val = bool(ret[1])
                elif ret[0] == "call":
                    val = call_val(ret[1], env)
                    if ret[2] is False:
                        val = not val
                else:
                    raise sl.Unextractable("comparable(): unrecognised return %r" % (ret[:2],))
                if res is not None and res != val:
                    raise sl.Unextractable("comparable(): overlapping paths disagree for (%s,%s)" % (a, bb_))
                res = val
            if res is None:
                raise sl.Unextractable("comparable(): no path for (%s,%s)" % (a, bb_))
            M[(a, bb_)] = res
    return M, variants


def rule_b(ctx):
    r = RuleResult("C08-b", "Unit::kind, the conversion table and comparable() describe the same partition; From<String>/Display are inverse")
    prog = ctx.prog()
    T = conv.table(prog)
    kind_body = prog.one("unit::Unit::kind")
    kt, adt = common.variant_ret_table(kind_body)
    if not kt:
        raise AnchorMissing("Unit::kind is not a match on self returning UnitKind constants")
    # kind classes vs table rows
    for cls, kname in zip(CLASSES, KIND_OF_CLASS):
        members = {v for v, k in kt.items() if k == kname}
        key = "kind|%s" % kname
        rows = {u for u in T if kt.get(u) == kname}
        if members == cls and rows == cls:
            r.ok(key, members=sorted(members))
        else:
            r.violate(key, "UnitKind::%s = %s, conversion-table rows of that kind = %s, CSS class = %s" % (kname, sorted(members), sorted(rows), sorted(cls)), kind_body.loc())
    for v, k in kt.items():
        if v in T and k not in KIND_OF_CLASS:
            r.violate("kind|row-without-class|%s" % v, "unit %s has a conversion row but kind %s" % (v, k))
    # comparable() matrix
    try:
        M, variants = comparable_matrix(prog, kt)
    except sl.Unextractable as e:
        r.violate("comparable|shape", "cannot summarise Unit::comparable: %s" % e)
        return r
    n = 0
    for (a, b), val in M.items():
        if a == b or a == "None" or b == "None":
            # reflexive / unitless is comparable with everything
            if not val:
                r.violate("comparable|%s|%s" % (a, b), "comparable(%s, %s) is false; equal units and unitless must be comparable" % (a, b))
            continue
        n += 1
        in_table = b in T.get(a, {})
        key = "comparable|%s|%s" % (a, b)
        if val == in_table:
            r.ok(key)
        elif val:
            r.violate(key, "comparable(%s, %s) is true but UNIT_CONVERSION_TABLE[%s][%s] does not exist: Number::convert would panic" % (a, b, a, b))
        else:
            r.violate(key, "comparable(%s, %s) is false although the units are convertible (table has the entry)" % (a, b))
        if M[(b, a)] != val:
            r.violate("comparable|sym|%s|%s" % tuple(sorted((a, b))), "comparable(%s,%s) != comparable(%s,%s)" % (a, b, b, a))
    r.floor("comparable() pairs of distinct known units", n, 34 * 33)
    # calc compatibility sets
    kc = sl.eval_lazy_static(prog, "unit::conversion::KNOWN_COMPATIBILITIES")
    if not isinstance(kc, list) or not all(isinstance(s, sl.Map) for s in kc):
        r.violate("KNOWN_COMPATIBILITIES|shape", "cannot extract KNOWN_COMPATIBILITIES as an array of sets")
        return r
    sets = [set(k.name for k, _ in s.items) for s in kc]
    for i in range(len(sets)):
        for j in range(i + 1, len(sets)):
            if sets[i] & sets[j]:
                r.violate("compat|disjoint|%d|%d" % (i, j), "KNOWN_COMPATIBILITIES[%d] and [%d] share %s" % (i, j, sorted(sets[i] & sets[j])))
    for cls in CLASSES:
        holders = [i for i, s in enumerate(sets) if cls <= s]
        key = "compat|class|%s" % sorted(cls)[0]
        if len(holders) == 1:
            r.ok(key, set_index=holders[0])
        else:
            r.violate(key, "conversion class %s is contained in %d KNOWN_COMPATIBILITIES sets (expected exactly one)" % (sorted(cls), len(holders)))
    kb = prog.one("unit::conversion::known_compatibilities_by_unit")
    arms = _arm_index_table(kb)
    for v, idx in sorted(arms.items()):
        key = "compat|by_unit|%s" % v
        if idx is None:
            if any(v in s for s in sets):
                r.violate(key, "known_compatibilities_by_unit(%s) returns None but %s is listed in a compatibility set" % (v, v), kb.loc())
            else:
                r.ok(key, returns=None)
        elif idx < len(sets) and v in sets[idx]:
            r.ok(key, returns=idx)
        else:
            r.violate(key, "known_compatibilities_by_unit(%s) returns set #%s which does not contain %s" % (v, idx, v), kb.loc())
    r.floor("known_compatibilities_by_unit arms", len([1 for v in arms.values() if v is not None]), 26)
    # From<String> / Display
    fs = prog.one("<grass_compiler::unit::Unit as std::convert::From<std::string::String>>::from")
    from_tab = common.str_match_table(fs)
    disp = common.variant_region_consts(prog.one("<grass_compiler::unit::Unit as std::fmt::Display>::fmt"))
    if not from_tab or not disp:
        raise AnchorMissing("Unit From<String>/Display tables not extractable")
    known = [v for v in kt if v not in ("Unknown", "Complex", "None")]
    m = 0
    for v in known:
        key = "parse-print|%s" % v
        lits = disp.get(v, [])
        if len(lits) != 1:
            r.violate(key, "Display for Unit::%s writes %s (expected one literal)" % (v, lits))
            continue
        lit = lits[0]
        back = from_tab.get(lit.lower())
        m += 1
        if back == v:
            r.ok(key, text=lit)
        else:
            r.violate(key, "Unit::%s prints as %r, which parses back to %s" % (v, lit, back))
    for lit, v in from_tab.items():
        if lit is None:
            continue
        if lit != lit.lower():
            r.violate("parse|case|%s" % lit, "Unit::from matches the lower-cased text against %r, which can never match" % lit)
        if v in disp and disp[v] and disp[v][0].lower() != lit:
            r.violate("parse|%s" % lit, "unit text %r parses to Unit::%s, which prints as %r" % (lit, v, disp[v][0]))
    r.floor("known units with parse/print round trip", m, 34)
    return r


def _arm_index_table(body):
    """known_compatibilities_by_unit: {variant: constant index | None}."""
    for sw, ap, adt, variants, rv in common.discr_switches(body):
        if ap.root != ("arg", 1):
            continue
        arms = common.switch_arms(body, sw, variants)
        out = {}
        for name, tb in arms.items():
            if name == "_":
                continue
            region = common.exclusive_region(body, sw, tb)
            if not region:
                region = {tb}
            idx = None
            isnone = False
            for b in region:
                for s in body.stmts(b):
                    if s["k"] != "assign":
                        continue
                    rv2 = s["rv"]
                    if rv2["k"] == "use" and rv2["op"]["k"] == "const" and rv2["op"]["c"].get("ty") == "usize":
                        idx = int(rv2["op"]["c"]["v"])
                    if rv2["k"] == "agg" and rv2.get("variant") == "None" and s["p"]["l"] == 0:
                        isnone = True
            out[name] = None if (isnone and idx is None) else idx
        # arms sharing the default target: exclusive regions are empty for merged arms; recompute by target
        by_target = {}
        for name, tb in arms.items():
            by_target.setdefault(tb, []).append(name)
        for tb, names in by_target.items():
            if len(names) > 1:
                reach = common.reach_from(body, tb)
                others = set()
                for tb2 in by_target:
                    if tb2 != tb:
                        others |= common.reach_from(body, tb2)
                region = reach - others
                idx, isnone = None, False
                for b in region:
                    for s in body.stmts(b):
                        if s["k"] != "assign":
                            continue
                        rv2 = s["rv"]
                        if rv2["k"] == "use" and rv2["op"]["k"] == "const" and rv2["op"]["c"].get("ty") == "usize":
                            idx = int(rv2["op"]["c"]["v"])
                        if rv2["k"] == "agg" and rv2.get("variant") == "None" and s["p"]["l"] == 0:
                            isnone = True
                for nme in names:
                    if nme != "_":
                        out[nme] = None if (isnone and idx is None) else idx
        return out
    return {}


def rule_c(ctx):
    r, n = conv.run(ctx, "C08-c", "every unit conversion is guarded by comparable() on the same pair (inconvertible units are never silently computed)")
    r.floor("conversion sites", n, 17)
    # the guard's failing edge must not fall through into the conversion: covered by psa (all paths).
    return r


def _sibling(ap):
    if not ap.proj:
        return None
    last = ap.proj[-1]
    if last == "num":
        return an.AP(ap.root, ap.proj[:-1] + ("unit",))
    if last == "#0":
        return an.AP(ap.root, ap.proj[:-1] + ("#1",))
    return None


def _derives_from(body, ap, call_bb, depth=0):
    """Does the value described by `ap` derive from the result of the call at call_bb?"""
    if ap.root[0] != "call":
        return False
    if ap.root[2] == call_bb:
        return True
    if depth > 3:
        return False
    c = body.call_at(ap.root[2])
    if c is None:
        return False
    return any(_derives_from(body, an.trace_operand(body, a, through_calls=False), call_bb, depth + 1) or
               _derives_from(body, an.trace_operand(body, a), call_bb, depth + 1) for a in c.args)


def _closure_roles(prog, cb):
    """For a closure passed to Vec::retain: repr(access path inside the closure) -> 'NUMER' | 'DENOM' for its element parameter
    and its captured variables, from Unit::numer_and_denom() tuple fields in the parent."""
    parent_path = cb.path.rsplit("::{closure", 1)[0]
    parent = prog.bodies.get(parent_path)
    if parent is None:
        return None

    def role(ap, depth=0):
        # ... numer_and_denom()@bbN.#0 / .#1, possibly through into_iter()/next()
        if ap.root[0] == "call" and ap.root[1].endswith("Unit::numer_and_denom"):
            f = [x for x in ap.proj if x in ("#0", "#1")]
            return {"#0": "NUMER", "#1": "DENOM"}.get(f[0]) if f else None
        if ap.root[0] == "call" and depth < 4:
            c = parent.call_at(ap.root[2])
            if c is not None and an.tail2(c.callee) in ("Iterator::next", "IntoIterator::into_iter") and c.args:
                return role(an.trace_operand(parent, c.args[0]), depth + 1)
        return None

    out = {}
    for c in parent.calls():
        if an.tail2(c.callee) != "Vec::retain" or len(c.args) != 2 or c.args[1].place is None:
            continue
        for bb, i, d in parent.defs_of(c.args[1].place.local):
            if isinstance(d, dict) and d.get("agg") == "closure" and facts_norm(d["def"]) == cb.path:
                out["arg2"] = role(an.trace_operand(parent, c.args[0]))
                for k, op in enumerate(d["ops"]):
                    out["arg1.#%d" % k] = role(an.trace_operand(parent, Operand(op)))
    return out or None


def rule_d(ctx):
    r = RuleResult("C08-d", "conversion direction: `from` is the converted number's own unit, `to` is the other operand's unit and the unit stored in the result")
    prog = ctx.prog()
    sites = [s for s in conv.find_sites(prog) if s.kind == "convert"]
    n = 0
    for s in sites:
        b, c = s.call.body, s.call
        num = an.trace_operand(b, c.args[0])
        fn = b.path
        sib = _sibling(num)
        if sib is not None:
            n += 1
            key = "%s|from-is-own-unit" % fn
            if sib == s.frm:
                r.ok(key)
            else:
                r.violate(key, "%s converts %r from unit %r, but the number's own unit is %r" % (fn, num, s.frm, sib), c.loc())
        # the consumer pairs the converted value with another number: `to` must be that number's unit
        for c2 in b.calls():
            idxs = [i for i, a in enumerate(c2.args) if an.trace_operand(b, a, through_calls=False).root == ("call", c.name(), c.bb)]
            if not idxs or len(c2.args) != 2 or len(idxs) == 2:
                continue
            other = an.trace_operand(b, c2.args[1 - idxs[0]])
            osib = _sibling(other)
            if osib is None:
                continue
            n += 1
            key = "%s|to-is-other-operand-unit|%s" % (fn, an.tail2(c2.callee))
            if osib == s.to:
                r.ok(key)
            else:
                r.violate(key, "%s converts to unit %r but combines the result with %r (unit %r)" % (fn, s.to, other, osib), c2.loc())
        # result stored in a SassNumber: its unit must be `to`
        for bb, i, pl, rv, st in b.assignments():
            if rv["k"] == "agg" and rv.get("adt", "").endswith("sass_number::SassNumber"):
                ops = dict(zip(rv["fields"], [an.trace_operand(b, Operand(o)) for o in rv["ops"]]))
                if "num" in ops and _derives_from(b, ops["num"], c.bb):
                    n += 1
                    key = "%s|result-unit-is-to" % fn
                    u = ops.get("unit")
                    alts = None
                    if u is not None and u.root[0] == "local" and not u.proj:
                        # unit chosen by a ladder (`if a == b {a} else if a == None {b} else {a}`): every alternative
                        # must be one of the two operand units and `to` must be among them
                        alts = []
                        for db, di, dv in b.defs_of(u.root[1]):
                            if isinstance(dv, dict) and dv["k"] == "use":
                                alts.append(an.trace_operand(b, Operand(dv["op"])))
                            else:
                                alts.append(None)
                    if u == s.to:
                        r.ok(key)
                    elif alts and all(a is not None and (a == s.to or a == s.frm) for a in alts) and any(a == s.to for a in alts):
                        r.ok(key, ladder=[repr(a) for a in alts])
                    else:
                        r.violate(key, "%s stores the converted result with unit %r although it was converted to %r" % (fn, ops.get("unit"), s.to), "%s:%d" % (b.file, st["span"]["l"]))
    # unit cancellation in multiply_units: a numerator unit N is cancelled against a denominator unit D of the product.
    # With f = conversion_factor(from, to) (one `from` = f `to`), dropping N/D from the unit requires  num /= f(D, N)  or  num *= f(N, D).
    nc = 0
    for cb in [b_ for b_ in prog.bodies.values() if b_.is_closure() and b_.crate == "grass_compiler"]:
        cf = [c_ for c_ in cb.calls() if (c_.name() or "").endswith("sass_number::conversion_factor")]
        if not cf:
            continue
        roles = _closure_roles(prog, cb)
        if roles is None:
            continue
        for c_ in cf:
            fr = roles.get(repr(an.trace_operand(cb, c_.args[0])))
            to = roles.get(repr(an.trace_operand(cb, c_.args[1])))
            ops_ = set()
            for bb_, i_, pl_, rv_, st_ in cb.assignments():
                if rv_["k"] == "binop" and rv_["op"] in ("Div", "Mul"):
                    for side in ("a", "b"):
                        src = an.trace_operand(cb, Operand(rv_[side]))
                        if src.root[0] == "call" and src.root[2] == c_.bb:
                            ops_.add((rv_["op"], side))
            key = "%s|cancel-direction" % cb.path
            nc += 1
            n += 1
            good = (fr, to, ops_) in (("DENOM", "NUMER", {("Div", "b")}), ("NUMER", "DENOM", {("Mul", "a")}), ("NUMER", "DENOM", {("Mul", "b")}))
            if good:
                r.ok(key, frm=fr, to=to, applied=sorted(ops_))
            else:
                r.violate(key, "%s cancels a numerator unit against a denominator unit with factor conversion_factor(from=%s, to=%s) applied as %s; "
                          "dimensionally the value must be divided by conversion_factor(denominator, numerator) (or multiplied by the reverse factor)"
                          % (cb.path, fr, to, sorted(ops_)), c_.loc())
    r.floor("unit-cancellation sites (multiply_units closures)", nc, 2)
    r.floor("direction obligations", n, 32)
    # unit-selection ladder of the four sibling implementations
    ladders = {}
    for name in ("evaluate::bin_op::add", "evaluate::bin_op::sub", "<grass_compiler::value::sass_number::SassNumber as std::ops::arith::Add>::add", "<grass_compiler::value::sass_number::SassNumber as std::ops::arith::Sub>::sub"):
        b = prog.one(name)
        ladders[name] = _ladder(b)
    ref = None
    for name, lad in ladders.items():
        key = "ladder|%s" % name
        exp = [
            ("EQ=T", "L"),
            ("EQ=F,LNONE=T", "R"),
            ("EQ=F,LNONE=F,RNONE=T", "L"),
            ("EQ=F,LNONE=F,RNONE=F", "L"),
        ]
        if lad == exp:
            r.ok(key, ladder=lad)
        else:
            r.violate(key, "unit-selection ladder of %s is %s, expected %s (left unit wins; a unitless side adopts the other unit)" % (name, lad, exp), prog.one(name).loc())
    return r


def _ladder(body):
    """[(facts, which-unit)] for each SassNumber aggregate whose num is the sum/difference of both operands."""
    out = []
    for bb, i, pl, rv, st in body.assignments():
        if rv["k"] == "agg" and rv.get("adt", "").endswith("sass_number::SassNumber"):
            ops = dict(zip(rv["fields"], [an.trace_operand(body, Operand(o)) for o in rv["ops"]]))
            num = ops.get("num")
            if num is None or num.root[0] != "call" or an.tail2(num.root[1]) not in ("Add::add", "Sub::sub"):
                continue
            c = body.call_at(num.root[2])
            l = an.trace_operand(body, c.args[0])
            lu = _sibling(l)
            if lu is None:
                continue
            unit = ops.get("unit")
            # right unit: sibling of right operand or the `from` of the convert
            rr = an.trace_operand(body, c.args[1])
            ru = _sibling(rr)
            if ru is None and rr.root[0] == "call" and rr.root[1] == conv.CONVERT:
                cc = body.call_at(rr.root[2])
                ru = an.trace_operand(body, cc.args[1])
            which = "L" if unit == lu else ("R" if unit == ru else "?")
            facts = {}
            for kind, obj, truth, d in an.bool_guard_calls(body, bb):
                if kind != "call" or an.tail2(obj.callee) not in ("PartialEq::eq", "PartialEq::ne"):
                    continue
                if an.tail2(obj.callee) == "PartialEq::ne":
                    truth = not truth
                x = an.trace_operand(body, obj.args[0])
                y = an.trace_operand(body, obj.args[1])
                if {x.key(), y.key()} == {lu.key(), ru.key()} if ru is not None else False:
                    facts["EQ"] = truth
                for u, v in ((x, y), (y, x)):
                    if v.root == ("const", "Unit::None"):
                        if u == lu:
                            facts["LNONE"] = truth
                        elif ru is not None and u == ru:
                            facts["RNONE"] = truth
            desc = ",".join("%s=%s" % (k, "T" if facts[k] else "F") for k in ("EQ", "LNONE", "RNONE") if k in facts)
            order = body.rpo().index(bb) if bb in body.rpo() else 0
            out.append((order, desc, which))
    out.sort()
    return [(d, w) for _, d, w in out]


def rule_e(ctx):
    r = RuleResult("C08-e", "numbers with complex units are rejected by the serializer unless inspecting")
    prog = ctx.prog()
    b = prog.one("Serializer::visit_number")
    # every buffer write / write_float call must be preceded by the `is_complex && !inspect => Err` test
    complex_calls = [c for c in b.calls() if c.name().endswith("Unit::is_complex")]
    if not complex_calls:
        r.violate("visit_number|is_complex", "Serializer::visit_number no longer tests Unit::is_complex before writing", b.loc())
        return r
    # the first emission of a number is write_float (the unit text is written after it, on the same path)
    writes = [c for c in b.calls() if c.name().endswith("Serializer::write_float")]
    n = 0
    from .. import psa

    def classify(kind, obj, body, sw):
        if kind == "call" and obj.name().endswith("Unit::is_complex"):
            x = an.trace_operand(body, obj.args[0])
            return psa.Pred(("COMPLEX",), [x]), False
        if kind == "place" and obj.proj and obj.proj[-1] == "inspect":
            return psa.Pred(("INSPECT",), [obj]), False
        return None

    for w in writes:
        n += 1
        vals, complete = psa.valuations_at(b, w.bb, classify)
        key = "visit_number|%s" % an.tail2(w.callee)
        bad = [v for v in vals if not (v.get(("COMPLEX",)) is False or v.get(("INSPECT",)) is True)]
        if complete and not bad:
            r.ok(key, valuations=len(vals))
        else:
            r.violate(key, "Serializer::visit_number writes (%s) on a path where a complex unit has not been excluded (path facts: %s)" % (an.tail2(w.callee), bad[:1]), w.loc())
    # the rejecting edge returns Err
    errs = an.err_exit_blocks(b)
    ok = False
    for c in complex_calls:
        for sw, pol in common.switches_on_call(b, c):
            tb = common.bool_edge(b, sw, True if pol else False)
            reach = common.reach_from(b, tb)
            if reach & errs:
                ok = True
    if ok:
        r.ok("visit_number|complex-unit-is-Err")
    else:
        r.violate("visit_number|complex-unit-is-Err", "the is_complex() branch of visit_number does not lead to an Err", b.loc())
    r.floor("writes in visit_number", n, 1)
    # outside the serializer: a Unit formatted with Display into text that is *returned as a value* (not into an error message)
    # bypasses that test; such a site needs its own is_complex() guard
    nd = 0
    per_fn = {}
    for fb in prog.bodies.values():
        if fb.crate != "grass_compiler" or fb.path.endswith("Serializer::visit_number"):
            continue
        errs = an.err_exit_blocks(fb)
        exits = set(fb.exits())
        for c in fb.calls():
            if not ((c.callee or "").endswith("Argument::new_display") and c.fn_args and c.fn_args[0].endswith("unit::Unit")):
                continue
            nd += 1
            to_value = c.bb in (exits - errs) or an.reach_avoiding(fb, c.bb, errs, exits - errs) is not None
            if not to_value:
                continue
            guarded = False
            for kind, obj, truth, d in an.bool_guard_calls(fb, c.bb):
                if kind == "call" and (obj.name() or "").endswith("Unit::is_complex") and truth is False:
                    guarded = True
            per_fn.setdefault(fb.root, []).append((guarded, c.loc()))
    for fn, sites in sorted(per_fn.items()):
        key = "%s|unit-text-into-value" % fn
        bad = [loc for g, loc in sites if not g]
        if not bad:
            r.ok(key, sites=len(sites))
        else:
            r.violate(key, "%s formats a number's unit into a string value at %d site(s) (%s) without excluding compound units: `(1px*1em) + null` yields the text "
                      "`1px*em`, which is not a CSS value (the serializer rejects the same number)" % (fn, len(bad), ", ".join(bad[:4])), bad[0])
    r.floor("Unit Display sites examined", nd, 20)
    return r



def _units_trivially_compatible(b, guard, site_bb):
    """On every path to site_bb the two units guarded by `guard` were found equal, or both were found to be Unit::None."""
    ua = an.trace_operand(b, guard.args[0])
    ub = an.trace_operand(b, guard.args[1])
    eq = none_a = none_b = False
    for kind, obj, truth, d in an.bool_guard_calls(b, site_bb):
        if kind != "call" or an.tail2(obj.callee) not in ("PartialEq::eq", "PartialEq::ne") or len(obj.args) != 2:
            continue
        is_eq = truth if an.tail2(obj.callee) == "PartialEq::eq" else (not truth)
        if not is_eq:
            continue
        x, y = an.trace_operand(b, obj.args[0]), an.trace_operand(b, obj.args[1])
        if {repr(x), repr(y)} == {repr(ua), repr(ub)}:
            eq = True
        for u, other in ((x, y), (y, x)):
            if "Unit::None" in repr(other) or (other.root[0] == "const" and "None" in str(other.root[1])):
                if repr(u) == repr(ua):
                    none_a = True
                if repr(u) == repr(ub):
                    none_b = True
    return eq or (none_a and none_b)


def _compatible_on_every_path(prog, b, guard, site_bb):
    """Predicate-sensitive version: every valuation reaching site_bb has comparable()==true on the pair, equal units, or a unitless side."""
    from .. import psa as _psa
    A = an.trace_operand(b, guard.args[0])
    B = an.trace_operand(b, guard.args[1])
    classify = conv.make_classifier(prog, A, B)
    vals, complete = _psa.valuations_at(b, site_bb, classify)
    if not complete or not vals:
        return False
    pk = conv.pair_key(A, B)
    for v in vals:
        if v.get(("CMP", pk)) is True or v.get(("COMPAT", pk)) is True or v.get(("EQ", pk)) is True:
            continue
        if v.get(("ISNONE", A.key())) is True or v.get(("ISNONE", B.key())) is True:
            continue
        return False
    return True


def rule_f(ctx):
    r = RuleResult("C08-f", "two numbers are only combined into a number after the comparability test: in every function that guards a pair of operand units with "
                   "comparable(), each SassNumber built in that pair's arm lies on the test's true edge (no result escapes before the `Incompatible units` error)")
    prog = ctx.prog()
    n = 0
    for b in prog.bodies.values():
        if b.crate != "grass_compiler" or b.is_closure():
            continue
        guards = [c for c in b.calls() if (c.name() or "").endswith("unit::Unit::comparable")]
        if not guards:
            continue
        aggs = [(bb, st) for bb, i, pl, rv, st in b.assignments() if rv["k"] == "agg" and rv.get("adt", "").endswith("sass_number::SassNumber")]
        if not aggs:
            continue
        for g in guards:
            # arm entry: nearest dominator of the guard that is the direct target of an enum-discriminant switch
            arm = None
            for d in sorted(b.dominators(g.bb), key=lambda x: -len(b.dominators(x))):
                preds = b.preds()[d]
                if any(b.term(p)["k"] == "switch" and any(k == "discr" for k, o, pol in an.cond_sources(b, Operand(b.term(p)["d"]))) for p in preds):
                    arm = d
                    break
            if arm is None:
                continue
            true_edges = [(sw, common.bool_edge(b, sw, pol)) for sw, pol in common.switches_on_call(b, g)]
            if not true_edges:
                r.undecide("%s|comparable-result-untested" % b.path, "the result of comparable() is not branched on directly", g.loc())
                continue
            for bb, st in aggs:
                if not (bb == arm or b.dominates(arm, bb)):
                    continue
                n += 1
                key = "%s|number-built-under-comparable" % b.path
                if any(an.edge_dominates(b, e, bb) for e in true_edges):
                    r.ok(key)
                elif _compatible_on_every_path(prog, b, g, bb):
                    r.ok(key, how="every path established comparable / equal units / a unitless side")
                else:
                    r.violate(key, "%s builds a number from two numeric operands at line %d on a path that has not passed comparable(): for incompatible units the "
                              "`Incompatible units` error is skipped and a value is silently computed" % (b.path, st["span"]["l"]), "%s:%d" % (b.file, st["span"]["l"]))
    r.floor("numbers built in comparable()-guarded arms", n, 8)
    return r



def _num_of(unit_ap):
    """The magnitude that belongs to a unit access path (inverse of _sibling)."""
    if not unit_ap.proj:
        return None
    last = unit_ap.proj[-1]
    if last == "unit":
        return an.AP(unit_ap.root, unit_ap.proj[:-1] + ("num",))
    if last == "#1":
        return an.AP(unit_ap.root, unit_ap.proj[:-1] + ("#0",))
    return None


def rule_g(ctx):
    r = RuleResult("C08-g", "magnitudes of two numbers are compared or combined raw (without convert) only where their units were found equal or one side is unitless: "
                   "in every function that converts between a pair of operand units, each ==/partial_cmp/+/- of the two unconverted magnitudes is guarded that way")
    from .. import psa as _psa
    prog = ctx.prog()
    n = 0
    seen = set()
    for s_ in conv.find_sites(prog):
        if s_.kind != "convert":
            continue
        b = s_.call.body
        A, B = s_.to, s_.frm  # units of the left and the converted operand
        na, nb = _num_of(A), _num_of(B)
        if na is None or nb is None or (b.path, repr(A), repr(B)) in seen:
            continue
        seen.add((b.path, repr(A), repr(B)))
        pk = conv.pair_key(A, B)
        classify = conv.make_classifier(prog, A, B)
        uses = []
        for c in b.calls():
            if len(c.args) == 2 and an.tail2(c.callee) in ("PartialEq::eq", "PartialEq::ne", "PartialOrd::partial_cmp", "PartialOrd::lt", "PartialOrd::le", "PartialOrd::gt",
                                                            "PartialOrd::ge", "Add::add", "Sub::sub", "Rem::rem", "Ord::cmp"):
                x, y = an.trace_operand(b, c.args[0]), an.trace_operand(b, c.args[1])
                if {repr(x), repr(y)} == {repr(na), repr(nb)}:
                    uses.append(c)
        for c in uses:
            n += 1
            key = "%s|raw-%s-of-both-magnitudes" % (b.path, an.tail2(c.callee).split("::")[-1])
            vals, complete = _psa.valuations_at(b, c.bb, classify)
            ok = complete and bool(vals)
            for v in vals:
                if not (v.get(("EQ", pk)) is True or v.get(("ISNONE", A.key())) is True or v.get(("ISNONE", B.key())) is True):
                    ok = False
            if ok:
                r.ok(key)
            else:
                r.violate(key, "%s applies %s to the two magnitudes %r and %r without converting one of them, on a path where the units have not been found equal and neither "
                          "side is unitless: `1in > 1cm` style comparisons then ignore the CSS ratios" % (b.path, an.tail2(c.callee), na, nb), c.loc())
    r.floor("raw uses of both magnitudes", n, 4)
    return r


RULES = [rule_a, rule_b, rule_c, rule_d, rule_e, rule_f, rule_g]
