"""C12 — modules load once, stay isolated and expose only public members (structural clauses)."""
from ..core import RuleResult
from ..facts import AnchorMissing, Operand, Place
from .. import an, psa
from . import common, c14

MV = "grass_compiler::utils::map_view::"
VIEWS = {
    # view -> (predicate recogniser description)
    "PublicMemberMapView": "is_public",
    "LimitedMapView": "contains",
    "PrefixedMapView": "starts_with",
}


def _view_bodies(prog, view, method):
    out = [b for p, b in prog.bodies.items() if p.startswith("<" + MV + view) and p.endswith(" as " + MV + "MapView>::" + method)]
    if len(out) != 1:
        raise AnchorMissing("%s::%s: expected one body, found %d" % (view, method, len(out)))
    return out[0]


def _pred_classifier(view):
    def classify(kind, obj, body, sw):
        if kind != "call":
            return None
        n = obj.name() or ""
        t2 = an.tail2(obj.callee)
        if view == "PublicMemberMapView" and n.endswith("common::Identifier::is_public"):
            return psa.Pred(("ALLOWED",), []), False
        if view == "LimitedMapView" and t2 == "HashSet::contains":
            recv = repr(an.trace_operand(body, obj.args[0]))
            if recv.endswith("arg1.1"):
                return psa.Pred(("ALLOWED",), []), False
        if view == "PrefixedMapView" and t2 == "str::starts_with":
            pat = repr(an.trace_operand(body, obj.args[1]))
            if "arg1.1" in pat:
                return psa.Pred(("ALLOWED",), []), False
        return None
    return classify


def rule_a(ctx):
    r = RuleResult("C12-a", "filtering member views forward get/remove/insert to the inner map only under their predicate, and list keys with the same predicate")
    prog = ctx.prog()
    n = 0
    for view in VIEWS:
        for method in ("get", "remove", "insert"):
            b = _view_bodies(prog, view, method)
            fw = [c for c in b.calls() if (c.callee or "") == MV + "MapView::" + method and repr(an.trace_operand(b, c.args[0])).endswith("arg1.0")]
            key = "%s::%s" % (view, method)
            if not fw:
                r.violate(key + "|forward", "%s::%s does not forward to the inner map" % (view, method), b.loc())
                continue
            for c in fw:
                n += 1
                vals, complete = psa.valuations_at(b, c.bb, _pred_classifier(view))
                if complete and vals and all(v.get(("ALLOWED",)) is True for v in vals):
                    r.ok(key, guard=VIEWS[view])
                else:
                    r.violate(key, "%s::%s reaches the inner map without its visibility test (%s) having succeeded: hidden/private members become reachable" % (view, method, VIEWS[view]), c.loc())
    r.floor("guarded forwarding calls", n, 9)
    # keys / iter apply the same predicate
    pk = _view_bodies(prog, "PublicMemberMapView", "keys")
    pi = _view_bodies(prog, "PublicMemberMapView", "iter")
    for b, nm in ((pk, "keys"), (pi, "iter")):
        filt = [c for c in b.calls() if an.tail2(c.callee) == "Iterator::filter"]
        uses = False
        for c in filt:
            ap = an.trace_operand(b, c.args[1])
            if ap.root[0] == "fn" and ap.root[1].endswith("Identifier::is_public"):
                uses = True
        for cl in prog.closures_of(b):
            if any((x.name() or "").endswith("Identifier::is_public") for x in cl.calls()):
                uses = True
        key = "PublicMemberMapView::%s|filter-is_public" % nm
        if filt and uses:
            r.ok(key)
        else:
            r.violate(key, "PublicMemberMapView::%s does not filter with Identifier::is_public: private members are listed" % nm, b.loc())
    lk = _view_bodies(prog, "LimitedMapView", "keys")
    srcs = [repr(an.trace_operand(lk, c.args[0])) for c in lk.calls() if an.tail2(c.callee) in ("HashSet::iter",)]
    if any(s.endswith("arg1.1") for s in srcs):
        r.ok("LimitedMapView::keys|lists-allowed-set")
    else:
        r.violate("LimitedMapView::keys|lists-allowed-set", "LimitedMapView::keys does not list exactly its allowed set", lk.loc())
    xk = _view_bodies(prog, "PrefixedMapView", "keys")
    tmpl = [an.trace_operand(xk2, c.args[0]).root for xk2 in prog.family(xk) for c in xk2.calls() if c.name() == "std::fmt::Arguments::new"]
    filt = [c for xk2 in prog.family(xk) for c in xk2.calls() if an.tail2(c.callee) == "Iterator::filter"]
    if ("const", "{}{}") in tmpl and not filt:
        r.ok("PrefixedMapView::keys|prefix-added-to-every-key")
    else:
        r.violate("PrefixedMapView::keys|prefix-added-to-every-key", "PrefixedMapView::keys must list every inner key with the prefix added (get() accepts exactly prefix+key); found templates %s, filters %d" % (tmpl, len(filt)), xk.loc())
    # Identifier::is_public tests the leading '-'
    ip = prog.one("common::Identifier::is_public")
    tests = common.str_tests(ip)
    if any(m == "starts_with" and l == "-" for c, m, l in tests) and any(rv["k"] == "unop" and rv["op"] == "Not" for _, _, _, rv, _ in ip.assignments()):
        r.ok("Identifier::is_public|!starts_with('-')")
    else:
        r.violate("Identifier::is_public", "Identifier::is_public is not `!starts_with('-')`", ip.loc())
    return r


def rule_b(ctx):
    r = RuleResult("C12-b", "@forward show/hide reach a member view: forwarded_map wraps the (prefixed) map in LimitedMapView::safelist / blocklist")
    prog = ctx.prog()
    b = prog.one("ForwardedModule::forwarded_map")
    for meth, argn, what in (("safelist", 3, "show"), ("blocklist", 4, "hide")):
        calls = [c for c in b.calls() if (c.name() or "").endswith("LimitedMapView::" + meth)]
        key = "forwarded_map|%s" % what
        if not calls:
            r.violate(key, "ForwardedModule::forwarded_map ignores its `%s` list: `@forward .. %s ..` exposes every member" % (meth, what), b.loc())
            continue
        for c in calls:
            lst = an.trace_operand(b, c.args[1])
            if lst.root == ("arg", argn):
                r.ok(key, list=repr(lst))
            else:
                r.violate(key, "LimitedMapView::%s is built from %r, not from the rule's %s list" % (meth, lst, what), c.loc())
            # result must flow to the return value
    # the limited view wraps the prefixed view (names in show/hide carry the prefix)
    pre = [c for c in b.assignments_of_adt("PrefixedMapView")] if hasattr(b, "assignments_of_adt") else None
    pre_blocks = [bb for bb, i, pl, rv, s in b.assignments() if rv["k"] == "agg" and rv.get("adt", "").endswith("PrefixedMapView")]
    lim = [c for c in b.calls() if (c.name() or "").endswith(("LimitedMapView::safelist", "LimitedMapView::blocklist"))]
    if pre_blocks and lim:
        if all(not b.dominates(l.bb, pb) and pb in b.reachable() for l in lim for pb in pre_blocks) and all(_reaches(b, pb, l.bb) for l in lim for pb in pre_blocks):
            r.ok("forwarded_map|prefix-before-limit")
        else:
            r.violate("forwarded_map|prefix-before-limit", "the show/hide view must be applied on top of the prefixed view", b.loc())
    # the map is handed back unwrapped only when there is no show list at all: an *empty* show list hides every member
    from .. import psa as _psa

    def classify(kind, obj, body, sw):
        if kind == "call" and an.tail2(obj.callee) in ("Option::is_none", "Option::is_some") and obj.args:
            a = an.trace_operand(body, obj.args[0])
            if a.root == ("arg", 3) and not a.proj:
                return _psa.Pred(("SHOW_NONE",), []), an.tail2(obj.callee) == "Option::is_some"
        if kind == "discr":
            ap, rv_ = obj
            if ap.root == ("arg", 3) and not [x for x in ap.proj if x != "<discr>"]:
                return _psa.Pred(("SHOW_NONE",), [], variant_true="None"), False
        return None

    rets = []
    for bb, i, pl, rv, st in b.assignments():
        if pl.local == 0 and not pl.proj and rv["k"] in ("use", "cast") and "p" in rv["op"]:
            rets.append(bb)
    # ... and the safelist wrapper is applied on every path where the list is Some
    wrapped_key = "forwarded_map|unwrapped-only-without-show-list"
    okw = True
    for bb in rets:
        vals, complete = _psa.valuations_at(b, bb, classify)
        # paths that return the map *unchanged* (no wrapper assigned to the map local on the way) — detect via: no LimitedMapView/PrefixedMapView block dominates and reaches
        lim_blocks = {c.bb for c in lim} | set(pre_blocks)
        plain = an.reach_avoiding(b, None, lim_blocks, {bb}) is not None
        if plain and not (complete and vals and all(v.get(("SHOW_NONE",)) is True for v in vals)):
            # a path without any wrapper reaches this return: every such path must have seen safelist == None
            unw, comp2 = _psa.valuations_at(b, bb, classify, avoid=tuple(lim_blocks))
            if not (comp2 and unw and all(v.get(("SHOW_NONE",)) is True for v in unw)):
                okw = False
    if rets and okw:
        r.ok(wrapped_key)
    elif rets:
        r.violate(wrapped_key, "ForwardedModule::forwarded_map can return the map unwrapped although a show list is present (e.g. when it is empty): `@forward \"m\" show $a` has an "
                  "empty function/mixin show list, which must hide every function and mixin, not expose them all", b.loc())
    # ForwardedModule::new passes the rule's lists
    fn = prog.one("ForwardedModule::new")
    fm = [c for c in fn.calls() if (c.name() or "").endswith("ForwardedModule::forwarded_map")]
    exp = [("shown_variables", "hidden_variables"), ("shown_mixins_and_functions", "hidden_mixins_and_functions"), ("shown_mixins_and_functions", "hidden_mixins_and_functions")]
    got = []
    for c in fm:
        got.append((repr(an.trace_operand(fn, c.args[2])).split(".")[-1], repr(an.trace_operand(fn, c.args[3])).split(".")[-1]))
    if sorted(got) == sorted(exp):
        r.ok("ForwardedModule::new|lists", calls=got)
    else:
        r.violate("ForwardedModule::new|lists", "ForwardedModule::new passes %s to forwarded_map, expected %s" % (got, exp), fn.loc())
    return r


def _reaches(body, a, b):
    return b in common.reach_from(body, a)


def rule_c(ctx):
    return c14.alias_rule(ctx, "C12-c", "sass:math / meta / selector / color members are bound to the same function items as their global aliases", ("math", "meta", "selector", "color"), 40)


def rule_d(ctx):
    r = RuleResult("C12-d", "a module is executed only on a cache miss and registered afterwards; module loops are detected before execution")
    prog = ctx.prog()
    ex = prog.one("Visitor::execute")
    gets = [c for c in ex.calls() if an.tail2(c.callee) in ("BTreeMap::get", "HashMap::get") and repr(an.trace_operand(ex, c.args[0])).endswith("arg1.modules")]
    if len(gets) != 1:
        raise AnchorMissing("execute: expected one lookup in self.modules, found %d" % len(gets))
    g = gets[0]

    def classify(kind, obj, body, sw):
        if kind == "discr":
            ap, rv = obj
            base = an.AP(ap.root, ap.proj[:-1]) if ap.proj and ap.proj[-1] == "<discr>" else ap
            if base.root == ("call", g.name(), g.bb) and not base.proj:
                return psa.Pred(("CACHED",), [], variant_true="Some"), False
        return None

    runs = [c for c in ex.calls() if (c.name() or "").endswith("Visitor::with_environment")]
    ins = [c for c in ex.calls() if an.tail2(c.callee) in ("BTreeMap::insert", "HashMap::insert") and repr(an.trace_operand(ex, c.args[0])).endswith("arg1.modules")]
    for c in runs:
        vals, complete = psa.valuations_at(ex, c.bb, classify)
        if complete and vals and all(v.get(("CACHED",)) is False for v in vals):
            r.ok("execute|runs-only-on-cache-miss")
        else:
            r.violate("execute|runs-only-on-cache-miss", "Visitor::execute evaluates the stylesheet although the module may already be in self.modules (a module would run twice)", c.loc())
    if not runs:
        raise AnchorMissing("execute no longer calls with_environment")
    # the closure passed to with_environment is where visit_stylesheet happens
    vs = [c for b2 in prog.family(ex) for c in b2.calls() if (c.name() or "").endswith("Visitor::visit_stylesheet")]
    if len(vs) == 1:
        r.ok("execute|visit_stylesheet-once")
    else:
        r.violate("execute|visit_stylesheet", "execute evaluates the stylesheet %d times" % len(vs), ex.loc())
    if ins and all(ex.dominates(runs[0].bb, i.bb) for i in ins):
        key_ap = an.trace_operand(ex, ins[0].args[1])
        lookup_ap = an.trace_operand(ex, g.args[1])
        r.ok("execute|registers-module-after-run", cache_key=repr(key_ap))
        if not ("url" in repr(key_ap) and "url" in repr(lookup_ap)):
            r.violate("execute|cache-key", "the module cache is queried with %r but filled with %r" % (lookup_ap, key_ap), ins[0].loc())
    else:
        r.violate("execute|registers-module-after-run", "execute does not insert the finished module into self.modules", ex.loc())
    # cached branch returns the cached module
    lm = prog.one("Visitor::load_module")
    cont = [c for c in lm.calls() if an.tail2(c.callee) in ("HashSet::contains", "BTreeSet::contains") and "active_modules" in repr(an.trace_operand(lm, c.args[0]))]
    insm = [c for c in lm.calls() if an.tail2(c.callee) in ("HashSet::insert", "BTreeSet::insert") and "active_modules" in repr(an.trace_operand(lm, c.args[0]))]
    rem = [c for c in lm.calls() if an.tail2(c.callee) in ("HashSet::remove", "BTreeSet::remove") and "active_modules" in repr(an.trace_operand(lm, c.args[0]))]
    exe = [c for c in lm.calls() if (c.name() or "").endswith("Visitor::execute")]
    if not (cont and insm and rem and exe):
        raise AnchorMissing("load_module: active_modules contains/insert/remove or execute call missing")

    def classify2(kind, obj, body, sw):
        if kind == "call" and obj.bb == cont[0].bb:
            return psa.Pred(("ACTIVE",), []), False
        return None

    vals, complete = psa.valuations_at(lm, exe[0].bb, classify2)
    if complete and vals and all(v.get(("ACTIVE",)) is False for v in vals):
        r.ok("load_module|execute-only-if-not-active")
    else:
        r.violate("load_module|execute-only-if-not-active", "load_module executes a module without having checked that it is not already being loaded (@use cycle would recurse)", exe[0].loc())
    errs = an.err_exit_blocks(lm)
    ok = False
    for sw, pol in common.switches_on_call(lm, cont[0]):
        tb = common.bool_edge(lm, sw, pol)
        if common.exclusive_region(lm, sw, tb) & errs or tb in errs or (common.reach_from(lm, tb) - common.reach_from(lm, common.bool_edge(lm, sw, not pol))) & errs:
            ok = True
    if ok:
        r.ok("load_module|loop-is-Err")
    else:
        r.violate("load_module|loop-is-Err", "a module already being loaded does not produce an Err in load_module", cont[0].loc())
    same = {repr(an.trace_operand(lm, c.args[1])) for c in cont + rem} | {repr(an.trace_operand(lm, c.args[1], through_calls=True)) for c in insm}
    if lm.dominates(insm[0].bb, exe[0].bb) and lm.dominates(exe[0].bb, rem[0].bb):
        r.ok("load_module|insert-execute-remove-bracket", set_key=sorted(same))
    else:
        r.violate("load_module|bracket", "active_modules.insert / execute / active_modules.remove are not nested in that order", lm.loc())
    return r


PUB = ("StylesheetParser::assert_public", "StylesheetParser::parse_public_identifier")


def rule_e(ctx):
    r = RuleResult("C12-e", "every parser site that builds a namespaced member reference has checked the member name with assert_public")
    prog = ctx.prog()
    n = 0
    for b in prog.bodies.values():
        if b.crate != "grass_compiler" or "/parse/" not in b.file:
            continue
        checks = {c.bb for c in b.calls() if an.tail2(c.callee) in ("StylesheetParser::assert_public", "StylesheetParser::parse_public_identifier")}
        for bb, i, pl, rv, s in b.assignments():
            if not (rv["k"] == "agg" and rv.get("agg") == "adt" and "namespace" in rv.get("fields", []) and "name" in rv.get("fields", [])):
                continue
            adt = rv["adt"].rsplit("::", 1)[-1]
            op = Operand(rv["ops"][rv["fields"].index("namespace")])
            ns = an.trace_operand(b, op)
            key = "%s|%s.namespace" % (b.root, adt)
            if ns.root[0] == "arg":
                n += 1

                def classify(kind, obj, body, sw, ns=ns):
                    if kind == "call" and an.tail2(obj.callee) in ("Option::is_some", "Option::is_none"):
                        if an.trace_operand(body, obj.args[0]) == ns:
                            return psa.Pred(("NS",), []), an.tail2(obj.callee) == "Option::is_none"
                    return None

                vals, complete = psa.valuations_at(b, bb, classify, avoid=checks)
                if complete and all(v.get(("NS",)) is False for v in vals):
                    r.ok(key, why="assert_public on every path where the namespace is Some")
                else:
                    r.violate(key, "%s builds %s with a caller-supplied namespace without assert_public on the member name" % (b.path, adt), "%s:%d" % (b.file, s["span"]["l"]))
                continue
            if ns.root[0] != "local":
                # constant None (or other non-namespace value)
                continue
            somes = []
            for db, di, d in b.defs_of(ns.root[1]):
                if isinstance(d, dict) and d["k"] == "agg" and d.get("variant") == "Some":
                    somes.append(db)
                elif isinstance(d, dict) and d["k"] == "agg" and d.get("variant") == "None":
                    pass
                elif isinstance(d, dict):
                    somes.append(db)
                else:
                    somes.append(db)
            if not somes:
                continue
            n += 1
            # a definition in the very block whose terminator is the check call is followed by the check
            if any(b.dominates(cb, bb) for cb in checks):
                r.ok(key, why="construction dominated by assert_public/parse_public_identifier")
                continue
            bad = [d for d in somes if d not in checks and an.reach_avoiding(b, d, checks, {bb}) is not None]
            if not bad:
                r.ok(key, why="every Some(namespace) definition reaches the construction only through assert_public/parse_public_identifier")
            else:
                r.violate(key, "%s can build %s with a namespace without having checked that the member name is public (`ns.-private` / `ns._private` would be reachable)" % (b.path, adt), "%s:%d" % (b.file, s["span"]["l"]))
    r.floor("namespaced construction sites", n, 4)
    # assert_public rejects names starting with '-' or '_'
    ip = prog.one("StylesheetParser::is_private")
    lits = {(m, l) for c, m, l in common.str_tests(ip)}
    if {("starts_with", "-"), ("starts_with", "_")} <= lits:
        r.ok("is_private|leading - or _")
    else:
        r.violate("is_private", "is_private does not test both leading `-` and `_` (%s)" % sorted(lits), ip.loc())
    ap_ = prog.one("StylesheetParser::assert_public")
    if any((c.name() or "").endswith("is_private") for c in ap_.calls()) and an.err_exit_blocks(ap_):
        r.ok("assert_public|Err-when-private")
    else:
        r.violate("assert_public", "assert_public no longer returns Err for private names", ap_.loc())
    return r


# ---------------------------------------------------------------------------------------------
def _config_classes(body, op, depth=0):
    """Classes of the `configuration: Option<Rc<RefCell<Configuration>>>` argument over all definitions reaching it:
    'none' | 'fresh' (Configuration::empty / ::explicit built here) | 'derived:<fn>' | 'other:<what>'."""
    if depth > 6:
        return {"other:depth"}
    if op.place is None:
        return {"none"} if "Option" in (op.const or {}).get("ty", "") else {"other:const"}
    if op.place.proj:
        return {"other:projection"}
    out = set()
    defs = body.defs_of(op.place.local)
    if not defs:
        return {"other:no-def"}
    for bb, i, d in defs:
        if isinstance(d, dict):
            if d["k"] == "agg" and d.get("variant") == "None":
                out.add("none")
            elif d["k"] == "agg" and d.get("variant") == "Some":
                out |= _config_payload(body, Operand(d["ops"][0]), depth + 1)
            elif d["k"] == "use":
                out |= _config_classes(body, Operand(d["op"]), depth + 1)
            elif d["k"] == "ref" and all(e["k"] == "deref" for e in d["p"].get("p", [])):
                out |= _config_classes(body, Operand({"k": "copy", "p": {"l": d["p"]["l"]}}), depth + 1)
            else:
                out.add("other:" + d["k"])
        else:
            t2 = an.tail2(d.callee)
            if t2 in ("Clone::clone", "Option::clone") and d.args:
                out |= _config_classes(body, d.args[0], depth + 1)
            else:
                out.add("other:" + str(t2))
    return out


def _config_payload(body, op, depth=0):
    if depth > 8 or op.place is None:
        return {"other:payload"}
    if op.place.proj:
        ap = an.trace_operand(body, op)
        if ap.root[0] == "call":
            nm = ap.root[1]
            return {"fresh"} if nm.endswith("Configuration::empty") or nm.endswith("Configuration::explicit") else {"derived:" + nm.rsplit("::", 1)[-1]}
        return {"other:%r" % (ap,)}
    out = set()
    for bb, i, d in body.defs_of(op.place.local):
        if isinstance(d, dict):
            if d["k"] in ("use",):
                out |= _config_payload(body, Operand(d["op"]), depth + 1)
            elif d["k"] == "ref" and all(e["k"] == "deref" for e in d["p"].get("p", [])):
                out |= _config_payload(body, Operand({"k": "copy", "p": {"l": d["p"]["l"]}}), depth + 1)
            else:
                out.add("other:" + d["k"])
            continue
        t2 = an.tail2(d.callee)
        name = d.name() or ""
        if t2 in ("Clone::clone", "Rc::clone", "Rc::new", "RefCell::new", "Try::branch") and d.args:
            out |= _config_payload(body, d.args[0], depth + 1)
        elif name.endswith("Configuration::empty") or name.endswith("Configuration::explicit"):
            out.add("fresh")
        elif name:
            out.add("derived:" + name.rsplit("::", 1)[-1])
        else:
            out.add("other:indirect")
    if not out:
        # `f()?` payloads and struct fields
        ap = an.trace_operand(body, op)
        if ap.root[0] == "call":
            out.add("derived:" + ap.root[1].rsplit("::", 1)[-1])
        else:
            out.add("other:%r" % (ap,))
    return out


CONFIG_TABLE = {
    # caller -> allowed classes of the configuration argument of load_module
    "grass_compiler::evaluate::visitor::Visitor::visit_use_rule": ({"fresh"}, "`@use` starts from its own `with` clause or an empty configuration; None would make execute() fall back to the "
                                                                         "configuration of the module being evaluated"),
    "grass_compiler::evaluate::visitor::Visitor::visit_forward_rule": ({"derived:add_forward_configuration", "none"}, "`@forward` passes the enclosing configuration through (through_forward) by design"),
}


def rule_f(ctx):
    r = RuleResult("C12-f", "module isolation: `@use` never inherits the configuration of the module that contains it — load_module receives a configuration built "
                   "from the rule's own `with` clause (or an empty one) at every call outside @forward")
    prog = ctx.prog()
    n = 0
    for b in prog.bodies.values():
        for c in b.calls():
            if not (c.name() or "").endswith("evaluate::visitor::Visitor::load_module"):
                continue
            n += 1
            classes = _config_classes(b, c.args[2])
            key = "%s|load_module-configuration" % b.root
            allowed, why = CONFIG_TABLE.get(b.root, ({"fresh"}, "callers other than @forward must not inherit the enclosing configuration"))
            if classes <= allowed:
                r.ok(key, classes=sorted(classes))
            else:
                r.violate(key, "%s passes a configuration of class %s to load_module (allowed here: %s): %s" % (b.path, sorted(classes - allowed), sorted(allowed), why), c.loc())
    r.floor("load_module call sites", n, 3)
    return r



def rule_g(ctx):
    r = RuleResult("C12-g", "one module per file whatever the spelling: the key of the module cache, the active-module set and the import cache is Fs::canonicalize of the "
                   "resolved path, and StdFs::canonicalize is the operating system's real path on every path (no shortcut that keeps symlinks)")
    prog = ctx.prog()
    cz = [b for k, b in prog.bodies.items() if k.endswith("fs::Fs>::canonicalize") and "StdFs" in k]
    if len(cz) != 1:
        raise AnchorMissing("<StdFs as Fs>::canonicalize not found (%d)" % len(cz))
    b = cz[0]
    calls = [c for c in b.calls()]
    real = [c for c in calls if (c.callee or "") == "std::fs::canonicalize"]
    key = "StdFs::canonicalize|is-realpath"
    rets = [(bb, rv) for bb, i, pl, rv, st in b.assignments() if pl.local == 0 and not pl.proj]
    ok = len(real) == 1 and real[0].dest is not None and real[0].dest.local == 0 and not rets and an.trace_operand(b, real[0].args[0]).root == ("arg", 2)
    if ok:
        r.ok(key)
    else:
        r.violate(key, "StdFs::canonicalize is no longer exactly std::fs::canonicalize(path) (calls: %s; other results: %d): a path that reaches a file through a symlink keeps its "
                  "spelling, so the same module is evaluated twice and a @use cycle through the link is not recognised" % ([c.callee for c in calls][:6], len(rets)), b.loc())
    # the three keyed structures use the canonicalised path
    v = prog.one("evaluate::visitor::Visitor::load_module")
    canon = [c for c in v.calls() if (c.callee or c.name() or "").endswith("Fs::canonicalize")]
    uses = []
    for c in v.calls():
        if c.args and c.args[0].place is not None:
            a0 = an.trace_operand(v, c.args[0])
            if a0.root == ("arg", 1) and a0.proj and a0.proj[-1] in ("active_modules", "modules") and len(c.args) > 1:
                uses.append((a0.proj[-1], an.tail2(c.callee), repr(an.trace_operand(v, c.args[1], through_calls=False))))
    if canon and uses and all("unwrap_or" in u[2] or "canonic" in u[2] or "clone" in u[2] for u in uses):
        r.ok("load_module|keys-are-canonical", uses=["%s.%s" % (u[0], u[1]) for u in uses])
    else:
        r.violate("load_module|keys-are-canonical", "load_module no longer keys active_modules / modules by the canonicalised URL (%s)" % uses, v.loc())
    return r



def rule_h(ctx):
    r = RuleResult("C12-h", "`@forward ... with`: the entries checked by assert_configuration_is_empty are protected for *all* names of the rule's own `with` clause, "
                   "guarded (!default) ones included, while only the unguarded names are exempt from remove_used_configuration (two different sets)")
    prog = ctx.prog()
    v = prog.one("evaluate::visitor::Visitor::visit_forward_rule")
    ruc = [c for c in v.calls() if (c.name() or "").endswith("Visitor::remove_used_configuration")]
    cont = [c for c in v.calls() if an.tail2(c.callee) == "HashSet::contains" and c.fn_args and "common::Identifier" in c.fn_args[0]]
    if len(ruc) != 1 or not cont:
        raise AnchorMissing("visit_forward_rule: remove_used_configuration / configured-names membership test not found (%d / %d)" % (len(ruc), len(cont)))

    def source_type(op):
        ap = an.trace_operand(v, op, through_calls=False)
        g = 0
        while ap.root[0] == "call" and g < 4:
            c = v.call_at(ap.root[2])
            if an.tail2(c.callee) == "Iterator::collect":
                return c.fn_args[0] if c.fn_args else ""
            ap = an.trace_operand(v, c.args[0], through_calls=False) if c.args else ap
            g += 1
        return None

    exc = source_type(ruc[0].args[2])
    key = "visit_forward_rule|except-set-is-unguarded-names"
    if exc is not None and "adapters::filter::Filter<" in exc and "ConfiguredVariable" in exc:
        r.ok(key)
    else:
        r.violate(key, "the `except` set given to remove_used_configuration is not the filtered (unguarded) names of the with clause: %s" % (exc or "?")[:160], ruc[0].loc())
    for c in cont:
        st = source_type(c.args[0])
        key = "visit_forward_rule|protected-set-is-all-configured-names"
        if st is not None and "ConfiguredVariable" in st and "Filter<" not in st:
            r.ok(key)
        else:
            r.violate(key, "the set of names kept for the final assert_configuration_is_empty is built with a filter (%s): `!default` entries of the with clause are removed before "
                      "the check, so `@forward \"m\" with ($v: x !default)` for a $v that is not !default in m is silently accepted" % (st or "?")[:160], c.loc())
    return r


RULES = [rule_a, rule_b, rule_c, rule_d, rule_e, rule_f, rule_g, rule_h]

