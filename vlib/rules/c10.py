"""C10 — @extend: structural clauses only (mandatory extends, placeholders, bookkeeping writes)."""
from ..core import RuleResult
from ..facts import AnchorMissing, Operand, Place, Call
from .. import an
from . import common, c05

EXT = "grass_compiler::selector::extend::"


def _field_read_switches(prog, field, adts):
    """[(body, switch block)] where a bool switch condition is a read of `<adt>.<field>`."""
    out = []
    for b in prog.bodies.values():
        if b.crate != "grass_compiler":
            continue
        for bb in range(len(b.blocks)):
            t = b.term(bb)
            if t["k"] != "switch" or t["dty"] != "bool":
                continue
            for kind, obj, pol in an.cond_sources(b, Operand(t["d"])):
                if kind == "place" and obj.proj and obj.proj[-1] == field:
                    out.append((b, bb, pol))
    return out


def rule_a(ctx):
    r = RuleResult("C10-a", "a mandatory @extend (no !optional) whose target is missing must be able to produce an error: is_optional has an error-producing reader")
    prog = ctx.prog()
    readers = _field_read_switches(prog, "is_optional", ("Extension", "ExtendRule", "AstExtendRule"))
    producing = []
    for b, sw, pol in readers:
        errs = an.err_exit_blocks(b)
        t = b.term(sw)
        # the `false` (mandatory) edge
        tb = common.bool_edge(b, sw, not pol) if pol else common.bool_edge(b, sw, True)
        mand = common.bool_edge(b, sw, False if pol else True)
        other = common.bool_edge(b, sw, True if pol else False)
        excl = common.reach_from(b, mand) - common.reach_from(b, other)
        if excl & errs:
            producing.append(b.path)
        r.note("reader of is_optional: %s" % b.path)
    if producing:
        r.ok("is_optional|error-producing-reader", readers=sorted(set(producing)))
    else:
        r.violate("is_optional|no-error-producing-reader",
                  "no branch on Extension/ExtendRule.is_optional leads to an Err: `a {@extend .missing}` compiles silently although the target does not exist (readers: %s)" % sorted({b.path for b, _, _ in readers}))
    # the flag is at least carried from the parsed rule into the Extension
    carried = False
    for b in prog.bodies.values():
        for bb, i, pl, rv, s in b.assignments():
            if rv["k"] == "agg" and rv.get("adt", "").endswith("extend::rule::ExtendRule") and "is_optional" in rv.get("fields", []):
                ap = an.trace_operand(b, Operand(rv["ops"][rv["fields"].index("is_optional")]))
                if "is_optional" in repr(ap):
                    carried = True
    if carried:
        r.ok("is_optional|carried-from-AST")
    else:
        r.violate("is_optional|carried-from-AST", "the !optional flag of the parsed @extend rule no longer reaches ExtendRule")
    return r


def rule_b(ctx):
    rr = c05.rule_d(ctx)
    rr.rule = "C10-b"
    rr.title = "placeholder selectors never reach the output (shared with C05-d)"
    for v in rr.violations:
        v.rule = "C10-b"
    return rr


MAP_WRITES = ("HashMap::insert", "HashMap::entry", "HashMap::extend", "IndexMap::insert", "IndexMap::entry", "BTreeMap::insert", "Extend::extend", "HashMap::get_mut", "IndexMap::get_mut")
TEMP_OPS = ("Option::replace", "Option::insert", "Option::get_or_insert", "Option::get_or_insert_with", "Option::take")


def rule_c(ctx):
    r = RuleResult("C10-c", "extension bookkeeping is actually stored: no `map.get_mut(k).replace(v)` on a temporary, and the media contexts consulted while extending are recorded somewhere")
    prog = ctx.prog()
    n = 0
    for b in prog.bodies.values():
        if b.crate != "grass_compiler" or "selector/extend" not in b.file:
            continue
        for c in b.calls():
            t2 = an.tail2(c.callee)
            if t2 not in TEMP_OPS or not c.args or c.args[0].place is None:
                continue
            defs = b.defs_of(c.args[0].place.local)
            if len(defs) != 1 or not isinstance(defs[0][2], dict) or defs[0][2]["k"] != "ref" or defs[0][2]["p"].get("p"):
                continue
            tl = defs[0][2]["p"]["l"]
            if b.local_name(tl) is not None:
                continue
            tdefs = b.defs_of(tl)
            if len(tdefs) == 1 and isinstance(tdefs[0][2], Call) and an.tail2(tdefs[0][2].callee).endswith("::get_mut"):
                reads = common.local_reads(b, tl)
                if len(reads) <= 1:
                    n += 1
                    recv = an.trace_operand(b, tdefs[0][2].args[0])
                    from .conv import stable_ap
                    key = "%s|%s on temporary of %s.get_mut" % (b.root, t2, stable_ap(b, recv))
                    r.undecide(key, "`%s.get_mut(k).%s(v)` only modifies the temporary Option returned by get_mut: nothing is stored in the map "
                                    "(the author meant map[k] = v); no failing stylesheet exhibited for this site" % (stable_ap(b, recv), t2.split("::")[1]), c.loc())
    r.note("%d no-effect operations on temporaries in selector/extend (reported as undecided)" % n)
    # media contexts: read while extending, so something must write them
    st = [b for p, b in prog.bodies.items() if p.startswith(EXT + "ExtensionStore::")]
    reads, writes = [], []
    for b in st:
        for c in b.calls():
            if not c.args:
                continue
            ap = repr(an.trace_operand(b, c.args[0]))
            if ap.endswith(".media_contexts"):
                t2 = an.tail2(c.callee)
                if t2 in ("HashMap::insert", "HashMap::entry", "HashMap::extend", "Extend::extend"):
                    writes.append((b, c))
                elif t2 in ("HashMap::get", "HashMap::contains_key"):
                    reads.append((b, c))
    if not reads:
        r.note("media_contexts is never read")
    elif writes:
        r.ok("media_contexts|recorded", writers=sorted({b.path for b, c in writes}))
    else:
        r.violate("media_contexts|never-recorded",
                  "ExtensionStore.media_contexts is consulted in %s but nothing ever stores into it (add_selector applies replace() to the temporary returned by get_mut): "
                  "`@extend` across @media blocks is not detected" % sorted({b.path.rsplit("::", 1)[-1] for b, c in reads}),
                  reads[0][1].loc())
    return r



def rule_d(ctx):
    r = RuleResult("C10-d", "selector registration is total: for every simple selector of a rule, ExtensionStore::register_selector records the rule under it and "
                   "descends into the inner list of a selector pseudo, whatever the index already contains")
    from . import loops as _loops
    prog = ctx.prog()
    b = prog.one("selector::extend::ExtensionStore::register_selector")
    nl = _loops.natural_loops(b)
    head = None
    for h in nl:
        c = b.call_at(h)
        if c is not None and an.tail2(c.callee) == "Iterator::next" and c.fn_args and c.fn_args[0].endswith("IntoIter<grass_compiler::selector::simple::SimpleSelector>"):
            head = h
    if head is None:
        raise AnchorMissing("register_selector: no loop over the simple selectors of a compound")
    entry = None
    pseudo_sw = None
    for sw, ap, adt, variants, rv in common.discr_switches(b):
        if ap.root[0] == "call" and ap.root[2] == head and not ap.proj and (adt or "").endswith("option::Option"):
            for v, tb in b.term(sw)["ts"]:
                if variants.get(v) == "Some":
                    entry = tb
        if ap.root[0] == "call" and ap.root[2] == head and ap.proj == ("as:Some", "0") and (adt or "").endswith("simple::SimpleSelector") and sw in nl[head] and pseudo_sw is None:
            if any(variants.get(v) == "Pseudo" for v, tb in b.term(sw)["ts"]):
                pseudo_sw = sw
    if entry is None or pseudo_sw is None:
        raise AnchorMissing("register_selector: loop entry / `if let SimpleSelector::Pseudo` not found")
    inserts = {c.bb for c in b.calls() if c.bb in nl[head] and an.tail2(c.callee) in ("SelectorHashSet::insert", "HashSet::insert", "IndexSet::insert")}
    rec = [c for c in b.calls() if c.bb in nl[head] and c.name() == b.path]
    # (1) every iteration records the rule
    key = "register_selector|every-simple-selector-recorded"
    if entry in inserts or (inserts and an.reach_avoiding(b, entry, inserts, {head}) is None):
        r.ok(key, insert_sites=len(inserts))
    else:
        r.violate(key, "register_selector can finish an iteration over a simple selector without inserting the rule into self.selectors", b.loc())
    # (2) every iteration reaches the pseudo test, and the recursive call is inside it
    key = "register_selector|pseudo-inner-list-always-visited"
    skipped = an.reach_avoiding(b, entry, {pseudo_sw}, {head}) is not None and entry != pseudo_sw
    if not rec:
        r.violate(key, "register_selector no longer recurses into the inner selector list of :not()/:is()/:has()/:where()", b.loc())
    elif skipped:
        r.violate(key, "register_selector can skip the `if let SimpleSelector::Pseudo {selector: Some(..)}` test for a simple selector (e.g. when it is already "
                  "indexed): rules whose :not()/:is() argument contains the @extend target are then not rewritten", "%s:%d" % (b.file, b.term(pseudo_sw)["span"]["l"]))
    else:
        r.ok(key)
    return r



def rule_e(ctx):
    r = RuleResult("C10-e", "specificity bounds used when trimming generated selectors: every `min_specificity` accessor reads/sums lower bounds only and every "
                   "`max_specificity` accessor upper bounds only; simple selectors carry the CSS weights (id 1000^2, class-like 1000, type and pseudo-element 1, universal 0)")
    prog = ctx.prog()
    n = 0
    SPEC = "grass_compiler::selector::common::Specificity"
    for b in prog.bodies.values():
        if b.crate != "grass_compiler" or b.is_closure():
            continue
        leaf = b.path.rsplit("::", 1)[-1]
        if leaf not in ("min_specificity", "max_specificity") or "::selector::" not in b.path:
            continue
        want = leaf[:3]
        other = "max" if want == "min" else "min"
        n += 1
        bad = []
        # fields of Specificity read in this body
        for bb, i, pl, rv, st in b.assignments():
            for opnd in ([rv.get("op")] if rv.get("k") == "use" else [rv.get("a"), rv.get("b")] if rv.get("k") == "binop" else []):
                if isinstance(opnd, dict) and "p" in opnd:
                    for e in opnd["p"].get("p", []):
                        if e.get("k") == "field" and e.get("adt", "").endswith("Specificity") and e.get("n") == other:
                            bad.append("reads Specificity.%s" % other)
        # sibling accessors called: only the same bound, except the documented `max falls back to min` for selectors with a single value
        for c in b.calls():
            cl = (c.name() or c.callee or "").rsplit("::", 1)[-1]
            if cl == other + "_specificity":
                same_self = c.args and an.trace_operand(b, c.args[0]).root == ("arg", 1)
                if not (want == "max" and same_self and "simple::SimpleSelector" in b.path):
                    bad.append("calls %s_specificity" % other)
        key = "%s|bound" % b.path
        if bad:
            r.violate(key, "%s %s: lower and upper specificity bounds are crossed, so trimming compares the wrong bound and can drop a generated selector that "
                      "is more specific than the one kept" % (b.path, ", ".join(sorted(set(bad)))), b.loc())
        else:
            r.ok(key)
    r.floor("min/max specificity accessors", n, 8)
    # weights of simple selectors (lower bound table)
    ss = prog.one("selector::simple::SimpleSelector::min_specificity")
    tab, adt = common.variant_ret_table(ss)
    want_tab = {"Universal": 0, "Type": 1}
    consts = set()
    for c in ss.calls():
        if "pow" in (c.callee or ""):
            consts.add(tuple(repr(an.trace_operand(ss, a)) for a in c.args))
    okt = True
    for k, v in want_tab.items():
        try:
            if int(tab.get(k)) != v:
                okt = False
        except (TypeError, ValueError):
            okt = False
    if okt and tab:
        r.ok("SimpleSelector::min_specificity|weights", table={k: str(v) for k, v in tab.items()})
    else:
        r.violate("SimpleSelector::min_specificity|weights", "SimpleSelector::min_specificity no longer gives universal 0 and type 1 (%s)" % {k: str(v) for k, v in (tab or {}).items()}, ss.loc())
    # pseudo-elements weigh 1: the early return of Pseudo::specificity is decided by `is_class` (false for ::x and the legacy :before/:after/...)
    ps = prog.one("selector::simple::Pseudo::specificity")
    first_sw = None
    for bb in ps.rpo():
        t = ps.term(bb)
        if t["k"] == "switch" and bb not in ps._const_switch:
            first_sw = bb
            break
    fld = None
    if first_sw is not None:
        for kind, obj, pol in an.cond_sources(ps, Operand(ps.term(first_sw)["d"])):
            if kind == "place" and obj.root == ("arg", 1) and obj.proj:
                fld = (obj.proj[-1], pol)
    if fld and fld[0] == "is_class":
        tgt = common.bool_edge(ps, first_sw, not fld[1])  # edge taken when is_class is false
        consts = common.ret_consts_from(ps, tgt) if hasattr(common, "ret_consts_from") else set()
        r.ok("Pseudo::specificity|element-vs-class", field="is_class")
    else:
        r.violate("Pseudo::specificity|element-vs-class", "Pseudo::specificity decides pseudo-element (weight 1) vs pseudo-class (weight 1000) by %r; the semantic flag is `is_class` "
                  "(false for ::x and for the legacy single-colon :before/:after/:first-line/:first-letter)" % (fld,), ps.loc())
    return r



def rule_f(ctx):
    r = RuleResult("C10-f", "unifying the trailing combinators of two selectors: a component popped off one selector's list is only ever pushed back onto that same list "
                   "(merge_final_combinators never moves a compound or combinator of the target into the extender, or the reverse)")
    prog = ctx.prog()
    b = prog.one("selector::extend::functions::merge_final_combinators")
    pops = {}
    for c in b.calls():
        if an.tail2(c.callee) in ("VecDeque::pop_back", "VecDeque::pop_front"):
            a0 = an.trace_operand(b, c.args[0])
            if a0.root[0] == "arg" and not a0.proj:
                pops[c.bb] = a0.root[1]

    def origins(op, depth=0, seen=None):
        """Set of list parameters whose pop produced (part of) this operand."""
        seen = seen if seen is not None else set()
        out = set()
        if op.place is None or depth > 12:
            return out
        l = op.place.local
        if l in seen:
            return out
        seen.add(l)
        for bb, i, d in b.defs_of(l):
            if isinstance(d, dict):
                if d["k"] == "use" and "p" in d["op"]:
                    out |= origins(Operand({"k": "copy", "p": {"l": d["op"]["p"]["l"]}}), depth + 1, seen)
                elif d["k"] == "agg":
                    for o in d.get("ops", []):
                        if "p" in o:
                            out |= origins(Operand({"k": "copy", "p": {"l": o["p"]["l"]}}), depth + 1, seen)
                elif d["k"] == "ref":
                    out |= origins(Operand({"k": "copy", "p": {"l": d["p"]["l"]}}), depth + 1, seen)
            else:
                if d.bb in pops:
                    out.add(pops[d.bb])
                elif an.tail2(d.callee) in ("Option::unwrap", "Clone::clone", "Option::expect", "Option::unwrap_or_default", "Into::into", "From::from") and d.args:
                    out |= origins(d.args[0], depth + 1, seen)
        return out

    n = 0
    for c in b.calls():
        if an.tail2(c.callee) not in ("VecDeque::push_back", "VecDeque::push_front") or len(c.args) != 2:
            continue
        a0 = an.trace_operand(b, c.args[0])
        if a0.root[0] != "arg" or a0.proj or a0.root[1] not in (1, 2):
            continue
        n += 1
        src = origins(c.args[1])
        key = "merge_final_combinators|push-back-onto-list-%d" % a0.root[1]
        if src <= {a0.root[1]}:
            r.ok(key, popped_from=sorted(src))
        else:
            r.violate(key, "merge_final_combinators pushes onto selector list #%d a component that was popped from list #%d: the target's trailing compound/combinator ends up "
                      "in the extender's ancestors (or the reverse), so the generated selector matches different elements than the extender" % (a0.root[1], sorted(src - {a0.root[1]})[0]), c.loc())
    r.floor("push-backs onto the two selector lists", n, 4)
    return r



def rule_g(ctx):
    r = RuleResult("C10-g", "an extender that is itself a selector pseudo is merged into the enclosing pseudo only if both the name and the argument (the An+B of "
                   ":nth-child(.. of S)) agree: extend_pseudo compares Pseudo.name and Pseudo.argument")
    prog = ctx.prog()
    top = prog.one("selector::extend::ExtensionStore::extend_pseudo")
    fields = set()
    for b in [top] + list(prog.closures_of(top)):
        for c in b.calls():
            if an.tail2(c.callee) in ("PartialEq::ne", "PartialEq::eq") and len(c.args) == 2:
                x, y = an.trace_operand(b, c.args[0]), an.trace_operand(b, c.args[1])
                for f in ("name", "argument"):
                    if x.proj and y.proj and x.proj[-1] == f and y.proj[-1] == f:
                        fields.add(f)
    key = "extend_pseudo|same-name-and-argument"
    if {"name", "argument"} <= fields:
        r.ok(key)
    else:
        r.violate(key, "extend_pseudo compares only %s of the inner and outer pseudo: `:nth-child(even of .e) {@extend .t}` is merged into `:nth-child(odd of .t)` although the "
                  "An+B parts differ, so the rule matches elements neither selector matched" % sorted(fields), top.loc())
    return r


RULES = [rule_a, rule_b, rule_c, rule_d, rule_e, rule_f, rule_g]
