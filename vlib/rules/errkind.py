"""P7 — error-kind typestate.  SassError has four private kinds; `raw()` panics unless Raw and
`kind()`/`Display` panic on Raw.  Kinds are introduced only by the four From impls and from_loc.
This module computes, for every function returning Result<_, Box<SassError>>, the set of kinds its
Err may carry (over-approximation over the call graph) with a witness chain per kind."""
import re

from ..facts import AnchorMissing
from .. import an

SASSERR = "std::boxed::Box<grass_compiler::error::SassError>"
RAW2PARSE = "grass_compiler::raw_to_parse_error"

# io::Error sources that cannot fail at run time (reviewed, one line of reason each)
INFALLIBLE_IO = {
    "Write::write_fmt": "io::Write for Vec<u8> never fails and no Display impl in the workspace returns Err (write! into Serializer.buffer)",
    "Write::write_all": "io::Write for Vec<u8> never fails",
    "Write::write": "io::Write for Vec<u8> never fails",
}


def ret_is_sassresult(body):
    t = body.local_ty(0)
    return t.startswith("std::result::Result<") and SASSERR in t


def _err_type_of_residual(s):
    # "std::result::Result<std::convert::Infallible, E>"
    m = re.match(r"^std::result::Result<std::convert::Infallible, (.*)>$", s)
    return m.group(1) if m else None


def kind_of_source_type(t):
    if t == SASSERR:
        return None  # pass-through
    if t == "std::io::error::Error":
        return "Io"
    if t == "std::string::FromUtf8Error":
        return "Utf8"
    if re.match(r"^\((&str|&'\w+ str|std::string::String), codemap::Span\)$", t) or t.startswith("(&") and t.endswith("str, codemap::Span)"):
        return "Raw"
    return "Other<%s>" % t


class ErrKinds:
    def __init__(self, prog):
        self.prog = prog
        self.kinds = {}  # path -> {kind: witness}
        self.addr_taken = self._addr_taken()
        self._compute()

    def _addr_taken(self):
        """fn items used as values (not in callee position) that return SassResult: targets of indirect calls."""
        out = set()
        prog = self.prog
        for b in prog.bodies.values():
            for c in b.calls():
                for a in c.args:
                    fp = a.fn_path()
                    if fp and fp in prog.bodies and ret_is_sassresult(prog.bodies[fp]):
                        out.add(fp)
            for _, _, _, rv, _ in b.assignments():
                from ..facts import rv_operands
                for o in rv_operands(rv):
                    fp = o.fn_path()
                    if fp and fp in prog.bodies and ret_is_sassresult(prog.bodies[fp]):
                        out.add(fp)
        return out

    def family_root(self, body):
        return self.prog.bodies.get(body.root, body)

    def converted_calls(self, fam):
        """(body path, bb) of calls whose error is handed to raw_to_parse_error in this function family."""
        prog = self.prog
        conv = {}
        sites = []
        for b in fam:
            for c in b.calls():
                if c.name() == RAW2PARSE:
                    ap = an.trace_operand(b, c.args[1])
                    src = None
                    if ap.root[0] == "call":
                        src = (b.path, ap.root[2])
                    elif ap.root[0] == "local":
                        # `match stylesheet { Err(e) => raw_to_parse_error(.., *e, ..) }` where `stylesheet` is assigned
                        # by a call in each arm of a preceding match
                        srcs = [(b.path, d.bb) for _, _, d in b.defs_of(ap.root[1]) if hasattr(d, "bb")]
                        for sx in srcs[1:]:
                            sites.append((b, c, sx))
                            conv[sx] = c
                        src = srcs[0] if srcs else None
                    elif ap.root[0] == "arg" and b.is_closure():
                        # closure passed to Result::map_err in the parent: receiver is the converted result
                        parent = prog.bodies.get(b.path.rsplit("::{closure#", 1)[0])
                        if parent is not None:
                            for pc in parent.calls():
                                if an.tail2(pc.callee) == "Result::map_err":
                                    clos = an.trace_operand(parent, pc.args[1])
                                    is_this = any(
                                        rv["k"] == "agg" and rv.get("agg") == "closure" and rv["def"].replace("::<'a>", "") and b.path.endswith(rv["def"].rsplit("::", 1)[-1]) and pl.local == (pc.args[1].place.local if pc.args[1].place else -1)
                                        for _, _, pl, rv, _ in parent.assignments()
                                    ) or True
                                    rap = an.trace_operand(parent, pc.args[0])
                                    if rap.root[0] == "call" and is_this:
                                        src = (parent.path, rap.root[2])
                    sites.append((b, c, src))
                    if src:
                        conv[src] = c
        return conv, sites

    def local_sources(self, body, converted):
        """[(kind or ('prop', callee path), witness string)] produced in one body."""
        prog = self.prog
        out = []
        for c in body.calls():
            t2 = an.tail2(c.callee)
            name = c.name() or ""
            if t2 == "FromResidual::from_residual" and len(c.fn_args) >= 2:
                et = _err_type_of_residual(c.fn_args[1])
                if et is None:
                    continue
                k = kind_of_source_type(et)
                if k is None:
                    continue  # identity: propagation handled through the producing call below
                # infallible source?
                src = an.trace_operand(body, c.args[0], through_calls=False)
                srcname = None
                if src.root[0] == "call" and an.tail2(src.root[1]) == "Try::branch":
                    bc = body.call_at(src.root[2])
                    s2 = an.trace_operand(body, bc.args[0], through_calls=False)
                    if s2.root[0] == "call":
                        srcname = s2.root[1]
                        scall = body.call_at(s2.root[2])
                        if k == "Io" and an.tail2(scall.callee) in INFALLIBLE_IO:
                            recv_ty = scall.fn_args[0] if scall.fn_args else ""
                            if "std::vec::Vec<u8>" in recv_ty:
                                continue
                out.append((k, "`?` on %s (from %s) in %s at %s" % (et, srcname or "?", body.path, c.loc())))
            elif t2 in ("Into::into", "From::from") and len(c.fn_args) >= 1:
                args = c.fn_args
                if t2 == "Into::into" and len(args) >= 2 and args[1] == SASSERR:
                    k = kind_of_source_type(args[0])
                elif t2 == "From::from" and args and args[0] == SASSERR and len(args) >= 2:
                    k = kind_of_source_type(args[1])
                else:
                    k = None
                if k:
                    out.append((k, "%s into SassError in %s at %s" % (args[0] if t2 == "Into::into" else args[1], body.path, c.loc())))
            elif name.endswith("SassError::from_loc") or name == RAW2PARSE:
                out.append(("Parse", "%s in %s at %s" % (name.rsplit("::", 1)[-1], body.path, c.loc())))
            # propagation from callees returning SassResult
            targets = prog.call_targets(c)
            if not targets and c.callee is None:
                targets = prog.indirect_targets(c)
            for tpath in targets:
                tb = prog.bodies[tpath]
                if not ret_is_sassresult(tb):
                    continue
                if (body.path, c.bb) in converted:
                    continue
                out.append((("prop", tpath), "%s calls %s at %s" % (body.path, tpath, c.loc())))
            # calls of closures / FnOnce::call_once on generic params: kinds of closures defined in callers are
            # attributed to the defining function (closure creation = may-call), see _compute
        return out

    def _compute(self):
        prog = self.prog
        direct = {}
        props = {}
        self.conv_sites = {}
        fams = {}
        for b in prog.bodies.values():
            fams.setdefault(b.root, []).append(b)
        for root, fam in fams.items():
            converted, sites = self.converted_calls(fam)
            if sites:
                self.conv_sites[root] = sites
            d, p = {}, {}
            if not any(ret_is_sassresult(b) for b in fam):
                direct[root] = d
                props[root] = p
                continue
            for b in fam:
                for k, w in self.local_sources(b, converted):
                    if isinstance(k, tuple):
                        p.setdefault(k[1], w)
                    else:
                        d.setdefault(k, w)
            direct[root] = d
            props[root] = p
        kinds = {r: dict((k, [w]) for k, w in d.items()) for r, d in direct.items()}
        changed = True
        while changed:
            changed = False
            for r, p in props.items():
                for callee, w in p.items():
                    croot = prog.bodies[callee].root if callee in prog.bodies else callee
                    for k, chain in kinds.get(croot, {}).items():
                        if k not in kinds[r]:
                            kinds[r][k] = [w] + chain
                            changed = True
        self.kinds = kinds

    def of(self, path):
        b = self.prog.bodies.get(path)
        root = b.root if b is not None else path
        return self.kinds.get(root, {})


_cache = {}


def get(prog):
    if id(prog) not in _cache:
        _cache[id(prog)] = ErrKinds(prog)
    return _cache[id(prog)]
