"""Built-in function registries extracted statically (P6): GLOBAL_FUNCTIONS and the sass:* modules."""
from .. import an, sl
from ..facts import norm

MODULES = ("list", "map", "math", "meta", "selector", "string", "color")


def _hooks():
    def builtin_new(ev, c, args):
        f = args[0]
        if isinstance(f, tuple) and f[0] == "fn":
            return ("builtin", norm(f[1]))
        return sl.Unknown("Builtin::new(%r)" % (f,))

    def insert_builtin(ev, c, args):
        m, name, f = args[0], args[1], args[2]
        if not isinstance(m, sl.Map) or not isinstance(name, str):
            raise sl.Unextractable("insert_builtin with non-constant name at %s" % c.loc())
        m.insert(name, ("builtin", norm(f[1])) if isinstance(f, tuple) and f[0] == "fn" else f, c)
        return None

    def insert_var(ev, c, args):
        m, name = args[0], args[1]
        if isinstance(m, sl.Map) and isinstance(name, str):
            m.insert("$" + name, args[2] if len(args) > 2 else None, c)
        return None

    def insert_mixin(ev, c, args):
        m, name = args[0], args[1]
        if isinstance(m, sl.Map) and isinstance(name, str):
            m.insert("@" + name, args[2] if len(args) > 2 else None, c)
        return None

    return {
        "Builtin::new": builtin_new,
        "Module::insert_builtin": insert_builtin,
        "Module::insert_builtin_var": insert_var,
        "Module::insert_builtin_mixin": insert_mixin,
        "__inline__": lambda name: name.endswith("::declare"),
    }


def global_functions(prog):
    t = sl.eval_lazy_static(prog, "builtin::functions::GLOBAL_FUNCTIONS", _hooks())
    if not isinstance(t, sl.Map):
        raise sl.Unextractable("GLOBAL_FUNCTIONS initialiser is not table-shaped")
    return t


def module_table(prog, module):
    b = prog.one("builtin::modules::%s::declare" % module)
    m = sl.Map("module:" + module)
    ev = sl.Eval(prog, b, _hooks(), args=[m])
    ev.run()
    return m
