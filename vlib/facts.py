"""Fact extraction (runs the grass-facts rustc driver over /repo's current working tree) and
the in-memory program model used by every rule: bodies, blocks, call sites, CFG, dominators,
call graph.  Nothing here executes grass."""
import fcntl
import hashlib
import json
import os
import re
import shutil
import subprocess
import sys
import tempfile
import time

VERIF = os.path.dirname(os.path.dirname(os.path.abspath(__file__)))
REPO = os.environ.get("GRASS_REPO", "/repo")
DRIVER = os.path.join(VERIF, "driver", "target", "debug", "grass-facts")
CACHE = os.path.join(VERIF, ".cache")

CONFIGS = {
    # name: (cargo args, rustflags extra)
    "default": (["--workspace"], "-C debug-assertions=off"),
    "debug": (["--workspace"], "-C debug-assertions=on"),
    "no-default": (["-p", "grass_compiler", "--no-default-features"], "-C debug-assertions=off"),
    "macro": (["-p", "grass", "--features", "macro"], "-C debug-assertions=off"),
    "wasm-exports": (["-p", "grass_compiler", "--features", "wasm-exports"], "-C debug-assertions=off"),
}


def _sysroot():
    return subprocess.check_output(["rustc", "+nightly", "--print", "sysroot"], text=True).strip()


def fingerprint(repo=REPO):
    h = hashlib.sha256()
    files = []
    for root in ("crates", "Cargo.toml", "Cargo.lock"):
        p = os.path.join(repo, root)
        if os.path.isfile(p):
            files.append(p)
        else:
            for dp, dn, fn in os.walk(p):
                dn[:] = [d for d in dn if d not in ("target", ".git")]
                for f in fn:
                    if f.endswith((".rs", ".toml", ".scss", ".sass", ".css", ".lock")):
                        files.append(os.path.join(dp, f))
    for f in sorted(files):
        h.update(os.path.relpath(f, repo).encode())
        h.update(b"\0")
        with open(f, "rb") as fh:
            h.update(fh.read())
        h.update(b"\0")
    with open(DRIVER, "rb") as fh:
        h.update(hashlib.sha256(fh.read()).digest())
    return h.hexdigest()[:20]


def extract(config="default", repo=REPO, quiet=True):
    """Return the directory holding the fact files for (repo tree, config); extract if needed."""
    if not os.path.exists(DRIVER):
        raise SystemExit("grass-facts driver not built: run MANIFEST.setup_cmd (cd /verif && ./setup.sh)")
    os.makedirs(CACHE, exist_ok=True)
    fp = fingerprint(repo)
    out = os.path.join(CACHE, fp + "-" + config)
    lock = open(os.path.join(CACHE, "lock-" + config), "w")
    fcntl.flock(lock, fcntl.LOCK_EX)
    try:
        if os.path.exists(os.path.join(out, "DONE")):
            return out
        if os.path.exists(out):
            shutil.rmtree(out)
        tmp_out = tempfile.mkdtemp(prefix="facts-", dir=CACHE)
        # Dependencies are compiled once into a warm target directory under the cache; the workspace members' fingerprints
        # are deleted before every extraction so that cargo re-runs the driver on them (a warm directory would otherwise
        # replay old results and skip the wrapper).  VERIF_COLD_TARGET=1 uses a throw-away directory instead.
        cold = bool(os.environ.get("VERIF_COLD_TARGET"))
        target = tempfile.mkdtemp(prefix="grass-verif-target-") if cold else os.path.join(CACHE, "deps-target-" + config)
        if not cold:
            _forget_members(target)
        try:
            cargo_args, extra = CONFIGS[config]
            env = dict(os.environ)
            env.update(
                {
                    "GRASS_FACTS_DIR": tmp_out,
                    "CARGO_NET_OFFLINE": "true",
                    "LD_LIBRARY_PATH": _sysroot() + "/lib",
                    "RUSTFLAGS": "-Zmir-opt-level=0 -Awarnings " + extra,
                    "RUSTC_WORKSPACE_WRAPPER": DRIVER,
                    "CARGO_TARGET_DIR": target,
                }
            )
            t0 = time.time()
            cmd = ["cargo", "+nightly", "check", "--offline", "--bins", "--lib"] + cargo_args
            r = subprocess.run(cmd, cwd=repo, env=env, stdout=subprocess.PIPE, stderr=subprocess.STDOUT, text=True)
            if r.returncode != 0:
                sys.stderr.write(r.stdout[-4000:])
                raise SystemExit("fact extraction failed: /repo does not build under `%s`" % " ".join(cmd))
            names = os.listdir(tmp_out)
            if not any(n.startswith("grass_compiler-") for n in names) and not cold:
                # the warm directory made cargo skip the driver after all: start from nothing once
                shutil.rmtree(target, ignore_errors=True)
                r = subprocess.run(cmd, cwd=repo, env=env, stdout=subprocess.PIPE, stderr=subprocess.STDOUT, text=True)
                names = os.listdir(tmp_out)
            if not any(n.startswith("grass_compiler-") for n in names):
                raise SystemExit("fact extraction produced no grass_compiler facts (driver skipped?)")
            # canonical def paths print std items under core::/alloc::; fold them into std:: so rules
            # name std items one way
            pat = re.compile(r"(?<![A-Za-z0-9_:])(?:core|alloc)::")
            for n in names:
                if n.endswith(".json"):
                    fp_ = os.path.join(tmp_out, n)
                    with open(fp_) as fh:
                        txt = fh.read()
                    with open(fp_, "w") as fh:
                        fh.write(pat.sub("std::", txt))
            with open(os.path.join(tmp_out, "META.json"), "w") as fh:
                json.dump({"config": config, "cmd": cmd, "wall_s": time.time() - t0, "fingerprint": fp}, fh)
            open(os.path.join(tmp_out, "DONE"), "w").close()
            os.rename(tmp_out, out)
        finally:
            if cold:
                shutil.rmtree(target, ignore_errors=True)
            if os.path.exists(tmp_out):
                shutil.rmtree(tmp_out, ignore_errors=True)
        _prune()
        return out
    finally:
        fcntl.flock(lock, fcntl.LOCK_UN)
        lock.close()


def _forget_members(target):
    for prof in ("debug",):
        fpd = os.path.join(target, prof, ".fingerprint")
        if os.path.isdir(fpd):
            for d in os.listdir(fpd):
                if d.startswith(("grass", "include_sass")):
                    shutil.rmtree(os.path.join(fpd, d), ignore_errors=True)


def _prune(keep=8):
    ds = [os.path.join(CACHE, d) for d in os.listdir(CACHE) if os.path.isdir(os.path.join(CACHE, d)) and not d.startswith(("facts-", "deps-target-"))]
    ds.sort(key=lambda d: os.path.getmtime(d), reverse=True)
    for d in ds[keep:]:
        shutil.rmtree(d, ignore_errors=True)


# -------------------------------------------------------------------------------------------
# path normalisation

_ident = re.compile(r"[A-Za-z0-9_]")


def _split_top(s, sep):
    """Split on `sep` at bracket depth 0."""
    out, depth, cur, i = [], 0, [], 0
    while i < len(s):
        c = s[i]
        if c in "<([":
            depth += 1
        elif c in ")]" or (c == ">" and (i == 0 or s[i - 1] != "-")):
            depth -= 1
        if depth == 0 and s.startswith(sep, i):
            out.append("".join(cur))
            cur = []
            i += len(sep)
            continue
        cur.append(c)
        i += 1
    out.append("".join(cur))
    return out


def _match_angle(path, i):
    depth = 0
    j = i
    n = len(path)
    while j < n:
        if path[j] == "<":
            depth += 1
        elif path[j] == ">" and path[j - 1] != "-":
            depth -= 1
            if depth == 0:
                return j
        j += 1
    return n - 1


def _norm_generics(inner):
    """Normalise a kept generic argument list: drop lifetimes, normalise each type argument."""
    args = [a.strip() for a in _split_top(inner, ",")]
    args = [a for a in args if a and not re.match(r"^'\w+$", a)]
    return ", ".join(_norm_type(a) for a in args)


def _norm_type(t):
    """Normalise a type keeping its own generic arguments (lifetimes dropped)."""
    t = re.sub(r"&'\w+ ", "&", t.strip())
    return _norm_traitref(t) if t.endswith(">") and not t.startswith("<") else norm(t)


def _norm_traitref(t):
    """`path::Trait<Args>`: strip generics from the path but keep the trait's own (final) type arguments."""
    t = t.strip()
    if t.endswith(">"):
        # find the matching '<' of the final generic list
        depth = 0
        for j in range(len(t) - 1, -1, -1):
            if t[j] == ">" and (j == 0 or t[j - 1] != "-"):
                depth += 1
            elif t[j] == "<":
                depth -= 1
                if depth == 0:
                    head, inner = t[:j], t[j + 1:-1]
                    if head.endswith("::"):
                        head = head[:-2]
                    g = _norm_generics(inner)
                    return norm(head) + ("<" + g + ">" if g else "")
    return norm(t)


def norm(path):
    """Strip generic argument lists (`Foo::<'a>`, `Foo<T>`) but keep qualified segments `<X as Trait<Args>>`
    and `<impl Trait<Args> for X>` with the trait's type arguments (lifetimes dropped), so that distinct
    impls keep distinct names."""
    out = []
    i, n = 0, len(path)
    while i < n:
        c = path[i]
        if c == "<":
            prev = out[-1] if out else ""
            j = _match_angle(path, i)
            inner = path[i + 1:j]
            is_generic = bool(prev and _ident.match(prev)) or ("".join(out[-2:]) == "::" and not inner.startswith("impl ") and " as " not in _split_top(inner, " as ")[0] + " as " * (len(_split_top(inner, " as ")) > 1) and len(_split_top(inner, " as ")) == 1)
            if is_generic:
                if "".join(out[-2:]) == "::":
                    out = out[:-2]
                i = j + 1
                continue
            # qualified segment
            if inner.startswith("impl "):
                body = inner[5:]
                parts = _split_top(body, " for ")
                if len(parts) == 2:
                    seg = "<impl %s for %s>" % (_norm_traitref(parts[0]), _norm_type(parts[1]))
                else:
                    seg = "<impl %s>" % _norm_type(body)
            else:
                parts = _split_top(inner, " as ")
                if len(parts) == 2:
                    seg = "<%s as %s>" % (_norm_type(parts[0]), _norm_traitref(parts[1]))
                else:
                    seg = "<%s>" % _norm_type(inner)
            out.extend(seg)
            i = j + 1
            continue
        out.append(c)
        i += 1
    return "".join(out)


# -------------------------------------------------------------------------------------------
# model


class Place:
    __slots__ = ("local", "proj")

    def __init__(self, j):
        self.local = j["l"]
        self.proj = j.get("p", [])

    def is_local(self):
        return not self.proj

    def fields(self):
        return [e.get("n") for e in self.proj if e["k"] == "field"]

    def __repr__(self):
        s = "_%d" % self.local
        for e in self.proj:
            k = e["k"]
            if k == "deref":
                s = "(*%s)" % s
            elif k == "field":
                s += "." + str(e.get("n", e["i"]))
            elif k == "downcast":
                s += " as " + str(e.get("n", e["i"]))
            elif k == "index":
                s += "[_%d]" % e["i"]
            else:
                s += "{%s}" % k
        return s


class Operand:
    __slots__ = ("kind", "place", "const")

    def __init__(self, j):
        self.kind = j["k"]
        self.place = Place(j["p"]) if "p" in j else None
        self.const = j.get("c")

    def is_const(self):
        return self.kind == "const"

    def const_value(self):
        c = self.const
        if c is None:
            return None
        for k in ("str", "v", "f"):
            if k in c:
                return c[k]
        if "bytes" in c:
            return decode_fmt_template(c["bytes"])
        return None

    def fn_path(self):
        if self.const and "fn" in self.const:
            return norm(self.const["fn"])
        return None

    def __repr__(self):
        if self.kind == "const":
            c = self.const
            if "fn" in c:
                return "fn:" + norm(c["fn"])
            v = self.const_value()
            return "const(%r)" % (v if v is not None else c.get("ty"))
        return "%s %r" % (self.kind, self.place)


def decode_fmt_template(bs):
    """Decode a core::fmt::Arguments template byte string into 'literal{}literal' text
    (falls back to latin-1 text if the bytes are not a template)."""
    out = []
    i, n = 0, len(bs)
    try:
        while i < n:
            b = bs[i]
            i += 1
            if b == 0:
                if i == n:
                    return "".join(out)
                raise ValueError
            if b < 0x80:
                out.append(bytes(bs[i:i + b]).decode("utf-8"))
                i += b
            elif b == 0x80:
                ln = bs[i] | (bs[i + 1] << 8)
                i += 2
                out.append(bytes(bs[i:i + ln]).decode("utf-8"))
                i += ln
            elif b >= 0xC0:
                skip = (4 if b & 1 else 0) + (2 if b & 2 else 0) + (2 if b & 4 else 0) + (2 if b & 8 else 0)
                i += skip
                out.append("{}")
            else:
                raise ValueError
        raise ValueError
    except (ValueError, IndexError, UnicodeDecodeError):
        return "b" + repr(bytes(bs))[1:]


class Call:
    """A call terminator."""

    __slots__ = ("body", "bb", "callee", "resolved", "res_kind", "fn_args", "res_args", "args", "dest", "target", "span", "src", "func_op", "unwind")

    def __init__(self, body, bb, t):
        self.body = body
        self.bb = bb
        f = Operand(t["f"])
        self.func_op = f
        self.callee = None
        self.resolved = None
        self.res_kind = None
        self.fn_args = []
        self.res_args = []
        if f.is_const() and "fn" in f.const:
            c = f.const
            self.callee = body.prog.qualify(norm(c["fn"]), body.crate)
            self.fn_args = c.get("fn_args", [])
            r = c.get("res")
            if r:
                self.resolved = body.prog.qualify(norm(r["fn"]), body.crate)
                self.res_kind = r["kind"]
                self.res_args = r.get("args", [])
        self.args = [Operand(a) for a in t["args"]]
        self.dest = Place(t["dest"]) if "dest" in t else None
        self.target = t.get("t")
        self.unwind = t.get("u")
        self.span = t["span"]
        self.src = t.get("src")

    def name(self):
        """Best-known callee path."""
        return self.resolved or self.callee

    def names(self):
        return {x for x in (self.callee, self.resolved) if x}

    def loc(self):
        return "%s:%d" % (self.span["file"], self.span["l"])

    def __repr__(self):
        return "Call(%s in %s bb%d @%s)" % (self.name(), self.body.path, self.bb, self.loc())


class Body:
    def __init__(self, prog, crate, j):
        self.prog = prog
        self.crate = crate
        self.j = j
        self.raw_path = j["path"]
        self.path = prog.qualify(norm(j["path"]), crate)
        self.root = prog.qualify(norm(j.get("root", j["path"])), crate)
        self.name = j.get("root_name", "")
        self.kind = j["kind"].split(" ")[0]
        self.span = j["span"]
        self.file = self.span["file"]
        self.argc = j["argc"]
        self.locals = j["locals"]
        self.blocks = j["blocks"]
        self.impl_self = j.get("impl_self")
        self.impl_trait = prog.qualify(norm(j["impl_trait"]), crate) if "impl_trait" in j else None
        self.trait_default = prog.qualify(norm(j["trait_default"]), crate) if "trait_default" in j else None
        self.is_pub = j.get("pub", False)
        self._calls = None
        self._const_switch = {}
        for bi, bl in enumerate(self.blocks):
            t = bl["t"]
            if t["k"] == "switch" and t["d"]["k"] in ("move", "copy") and not t["d"]["p"].get("p"):
                l = t["d"]["p"]["l"]
                val = None
                for s in bl["s"]:
                    if s["k"] == "assign" and s["p"]["l"] == l and not s["p"].get("p"):
                        rv = s["rv"]
                        if rv["k"] == "use" and rv["op"]["k"] == "const" and "bits" in rv["op"]["c"]:
                            val = rv["op"]["c"]["bits"]
                        else:
                            val = None
                if val is not None:
                    tgt = t["else"]
                    for v, b2 in t["ts"]:
                        if v == val:
                            tgt = b2
                    self._const_switch[bi] = tgt
        self._succ = None
        self._pred = None
        self._idom = None
        self._ipdom = None
        self.dbg = j.get("dbg", [])

    def promoted_body(self, idx):
        ps = self.j.get("promoted", [])
        if idx >= len(ps):
            return None
        cache = self.__dict__.setdefault("_prom", {})
        if idx not in cache:
            pj = dict(ps[idx])
            pj.update({"path": self.raw_path + "::{promoted#%d}" % idx, "kind": "Promoted", "span": self.span, "argc": 0})
            cache[idx] = Body(self.prog, self.crate, pj)
        return cache[idx]

    def promoted_value(self, idx):
        """Abstract value of promoted constant #idx (sl.Eval), or None."""
        pb = self.promoted_body(idx)
        if pb is None:
            return None
        from . import sl
        try:
            return sl.Eval(self.prog, pb).run()
        except sl.Unextractable:
            return None

    # --- names -----------------------------------------------------------------------
    def local_name(self, l):
        for d in self.dbg:
            p = d.get("p")
            if p and p["l"] == l and not p.get("p"):
                return d["name"]
        return None

    def local_ty(self, l):
        return self.locals[l]["s"]

    def short(self):
        return self.path

    def loc(self):
        return "%s:%d" % (self.file, self.span["l"])

    def is_closure(self):
        return self.kind == "Closure"

    # --- structure -------------------------------------------------------------------
    def term(self, b):
        return self.blocks[b]["t"]

    def stmts(self, b):
        return self.blocks[b]["s"]

    def is_cleanup(self, b):
        return self.blocks[b].get("cleanup", False)

    def calls(self):
        if self._calls is None:
            self._calls = []
            live = self.reachable()
            for i, bl in enumerate(self.blocks):
                t = bl["t"]
                if t["k"] == "call" and not bl.get("cleanup") and i in live:
                    self._calls.append(Call(self, i, t))
        return self._calls

    def call_at(self, b):
        for c in self.calls():
            if c.bb == b:
                return c
        return None

    def succ(self, b, unwind=False):
        t = self.blocks[b]["t"]
        k = t["k"]
        out = []
        if k == "goto":
            out = [t["t"]]
        elif k == "switch":
            if b in self._const_switch:
                out = [self._const_switch[b]]
            else:
                out = [x[1] for x in t["ts"]] + [t["else"]]
        elif k in ("drop", "assert"):
            out = [t["t"]]
        elif k == "call":
            if t.get("t") is not None:
                out = [t["t"]]
        if unwind and t.get("u") is not None:
            out = out + [t["u"]]
        # dedupe preserving order
        seen = []
        for x in out:
            if x not in seen:
                seen.append(x)
        return seen

    def succs(self):
        if self._succ is None:
            self._succ = [self.succ(b) for b in range(len(self.blocks))]
        return self._succ

    def preds(self):
        if self._pred is None:
            self._pred = [[] for _ in self.blocks]
            for b, ss in enumerate(self.succs()):
                for s in ss:
                    self._pred[s].append(b)
        return self._pred

    def reachable(self, start=0, avoid=()):
        seen = set()
        st = [start]
        sc = self.succs()
        while st:
            b = st.pop()
            if b in seen or b in avoid:
                continue
            seen.add(b)
            st.extend(sc[b])
        return seen

    def rpo(self):
        sc = self.succs()
        seen = set()
        order = []
        st = [(0, iter(sc[0]))]
        seen.add(0)
        while st:
            b, it = st[-1]
            adv = False
            for s in it:
                if s not in seen:
                    seen.add(s)
                    st.append((s, iter(sc[s])))
                    adv = True
                    break
            if not adv:
                order.append(b)
                st.pop()
        order.reverse()
        return order

    def idom(self):
        """Immediate dominators (Cooper-Harvey-Kennedy) over non-unwind edges."""
        if self._idom is not None:
            return self._idom
        order = self.rpo()
        idx = {b: i for i, b in enumerate(order)}
        pr = self.preds()
        idom = {0: 0}
        changed = True
        while changed:
            changed = False
            for b in order[1:]:
                new = None
                for p in pr[b]:
                    if p in idom:
                        if new is None:
                            new = p
                        else:
                            f1, f2 = p, new
                            while f1 != f2:
                                while idx[f1] > idx[f2]:
                                    f1 = idom[f1]
                                while idx[f2] > idx[f1]:
                                    f2 = idom[f2]
                            new = f1
                if new is not None and idom.get(b) != new:
                    idom[b] = new
                    changed = True
        self._idom = idom
        return idom

    def dominates(self, a, b):
        idom = self.idom()
        if b not in idom or a not in idom:
            return False
        while True:
            if a == b:
                return True
            if b == 0:
                return False
            b = idom[b]

    def dominators(self, b):
        idom = self.idom()
        out = []
        if b not in idom:
            return out
        while True:
            out.append(b)
            if b == 0:
                break
            b = idom[b]
        return out

    def exits(self):
        """Blocks ending in `return` (normal exits)."""
        return [b for b, bl in enumerate(self.blocks) if bl["t"]["k"] == "return" and not bl.get("cleanup")]

    # --- statement helpers -------------------------------------------------------------
    def assignments(self):
        live = self.reachable()
        for b, bl in enumerate(self.blocks):
            if bl.get("cleanup") or b not in live:
                continue
            for i, s in enumerate(bl["s"]):
                if s["k"] == "assign":
                    yield b, i, Place(s["p"]), s["rv"], s

    def defs_of(self, local):
        """All (bb, idx|'term', rvalue-or-call) that write `local` directly (no projection)."""
        out = []
        for b, i, p, rv, s in self.assignments():
            if p.local == local and not p.proj:
                out.append((b, i, rv))
        for c in self.calls():
            if c.dest is not None and c.dest.local == local and not c.dest.proj:
                out.append((c.bb, "term", c))
        return out


class Program:
    def __init__(self, facts_dir):
        self.dir = facts_dir
        self.crates = {}
        self.bodies = {}
        self.hir = {}
        self.local_crates = set()
        self.collisions = []
        raw = {}
        for f in sorted(os.listdir(facts_dir)):
            if not f.endswith(".json") or f == "META.json":
                continue
            with open(os.path.join(facts_dir, f)) as fh:
                j = json.load(fh)
            key = j["crate"] + ("#bin" if "Executable" in j["crate_type"] else "")
            if key in raw and len(j["bodies"]) < len(raw[key]["bodies"]):
                continue
            raw[key] = j
        self.local_crates = {k.split("#")[0] for k in raw}
        for key, j in raw.items():
            self.crates[key] = j
            self.hir[key] = j["hir"]
            for bj in j["bodies"]:
                b = Body(self, key, bj)
                if b.path in self.bodies:
                    k = 1
                    while "%s#%d" % (b.path, k) in self.bodies:
                        k += 1
                    self.collisions.append(b.path)
                    b.path = "%s#%d" % (b.path, k)
                self.bodies[b.path] = b
        self._callers = None
        self._impls_of_trait_method = None
        meta = os.path.join(facts_dir, "META.json")
        self.meta = json.load(open(meta)) if os.path.exists(meta) else {}

    def qualify(self, path, crate):
        """Paths are printed with their crate name by the driver (with_resolve_crate_name)."""
        return path

    # --- lookup ---------------------------------------------------------------------------
    def body(self, path):
        return self.bodies.get(path)

    def find(self, suffix):
        """Bodies whose path ends with `suffix` (segment-aligned)."""
        out = []
        for p, b in self.bodies.items():
            if p == suffix or p.endswith("::" + suffix):
                out.append(b)
        return out

    def one(self, suffix):
        r = self.find(suffix)
        if len(r) != 1:
            raise AnchorMissing("expected exactly one body matching %r, found %d: %s" % (suffix, len(r), [b.path for b in r][:5]))
        return r[0]

    def in_crate(self, crate):
        return [b for b in self.bodies.values() if b.crate == crate]

    def closures_of(self, body):
        pre = body.path + "::{closure#"
        return [b for p, b in self.bodies.items() if p.startswith(pre)]

    def family(self, body):
        """The body plus all closures nested in it."""
        pre = body.path + "::"
        return [body] + [b for p, b in self.bodies.items() if p.startswith(pre) and "{closure#" in p[len(pre) - 2:]]

    # --- call graph -----------------------------------------------------------------------
    def impl_methods(self):
        """trait-method path -> [impl body paths] for local trait impls."""
        if self._impls_of_trait_method is None:
            m = {}
            for b in self.bodies.values():
                if b.impl_trait and b.kind == "AssocFn":
                    m.setdefault(b.impl_trait + "::" + b.name, []).append(b.path)
            self._impls_of_trait_method = m
        return self._impls_of_trait_method

    def call_targets(self, call):
        """Local body paths a call may reach."""
        out = set()
        if call.resolved and call.resolved in self.bodies and call.res_kind != "virtual":
            out.add(call.resolved)
            # a resolved call to a trait *default* body may still dispatch on Self (generic): only if
            # resolution stayed on the trait item
            if call.resolved == call.callee and self.bodies[call.resolved].trait_default:
                out.update(self.impl_methods().get(call.callee, []))
            return out
        if call.resolved and call.res_kind != "virtual" and call.resolved != call.callee:
            return out  # resolved to a non-local item (std / dependency)
        if call.callee:
            if call.callee in self.bodies:
                out.add(call.callee)
            out.update(self.impl_methods().get(call.callee, []))
        return out

    def fn_sigs(self):
        """path -> (number of inputs, return type string) for every local fn item."""
        if getattr(self, "_sigs", None) is None:
            sg = {}
            for crate, f in self.hir_items("fns"):
                sg[norm(f["path"])] = (len(f["inputs"]), _strip_lt(f["ret"]["s"]))
            self._sigs = sg
        return self._sigs

    def address_taken(self):
        """fn items used as values (arguments, struct fields, casts): possible targets of indirect calls."""
        if getattr(self, "_addr", None) is None:
            out = set()
            for b in self.bodies.values():
                for c in b.calls():
                    for a in c.args:
                        fp = a.fn_path()
                        if fp:
                            out.add(fp)
                for _, _, _, rv, _ in b.assignments():
                    for o in rv_operands(rv):
                        fp = o.fn_path()
                        if fp:
                            out.add(fp)
            # trait methods named as values (`Self::parse_statement`): add every implementation
            more = set()
            for fp in out:
                more.update(self.impl_methods().get(fp, []))
            self._addr = {x for x in (out | more) if x in self.bodies}
        return self._addr

    def indirect_targets(self, call):
        """Targets of a call through a fn pointer: address-taken fn items with the same arity and return type."""
        if call.callee is not None or call.func_op.place is None:
            return set()
        ty = call.body.local_ty(call.func_op.place.local)
        sig = _fnptr_sig(ty)
        if sig is None:
            return set(self.address_taken())
        sg = self.fn_sigs()
        out = set()
        for fp in self.address_taken():
            s2 = sg.get(fp)
            if s2 is not None and s2[0] == sig[0] and (s2[1] == sig[1] or _generic_like(s2[1]) or _generic_like(sig[1])):
                out.add(fp)
        return out

    def callgraph(self):
        """path -> set(paths): direct calls, closure creation, and address-taken fn items."""
        if getattr(self, "_cg", None) is not None:
            return self._cg
        cg = {p: set() for p in self.bodies}
        for p, b in self.bodies.items():
            for c in b.calls():
                cg[p].update(self.call_targets(c))
                if c.callee is None:
                    cg[p].update(self.indirect_targets(c))
                for a in c.args:
                    fp = a.fn_path()
                    if fp:
                        fpq = self.qualify(fp, b.crate)
                        if fpq in self.bodies:
                            cg[p].add(fpq)
                        cg[p].update(self.impl_methods().get(fpq, []))
            for _, _, _, rv, _ in b.assignments():
                if rv["k"] == "agg" and rv.get("agg") == "closure":
                    q = self.qualify(norm(rv["def"]), b.crate)
                    if q in self.bodies:
                        cg[p].add(q)
                for op in _rv_operands(rv):
                    c = op.get("c")
                    if c and "fn" in c:
                        q = self.qualify(norm(c["fn"]), b.crate)
                        if q in self.bodies:
                            cg[p].add(q)
                        cg[p].update(self.impl_methods().get(q, []))
                    if c and c.get("ty", "").startswith("{closure") or (c and "closure@" in c.get("ty", "")):
                        pass
        # closures that capture nothing are constants of closure type: link parent -> closure always
        for p, b in self.bodies.items():
            if b.is_closure():
                parent = p.rsplit("::{closure#", 1)[0]
                if parent in cg:
                    cg[parent].add(p)
        self._cg = cg
        return cg

    def callers(self):
        if self._callers is None:
            self._callers = {p: set() for p in self.bodies}
            for p, ts in self.callgraph().items():
                for t in ts:
                    self._callers[t].add(p)
        return self._callers

    def reachable_from(self, roots):
        cg = self.callgraph()
        seen = set()
        st = list(roots)
        parent = {}
        while st:
            p = st.pop()
            if p in seen:
                continue
            seen.add(p)
            for t in cg.get(p, ()):
                if t not in seen:
                    parent.setdefault(t, p)
                    st.append(t)
        return seen, parent

    def call_sites_of(self, pred):
        """All call sites whose callee/resolved name satisfies pred(name)."""
        out = []
        for b in self.bodies.values():
            for c in b.calls():
                if any(pred(n) for n in c.names()):
                    out.append(c)
        return out

    # --- HIR ------------------------------------------------------------------------------
    def hir_items(self, kind):
        for crate, h in self.hir.items():
            for it in h.get(kind, []):
                yield crate, it

    def struct(self, suffix):
        for crate, s in self.hir_items("structs"):
            p = self.qualify(norm(s["path"]), crate)
            if p == suffix or p.endswith("::" + suffix):
                return s
        raise AnchorMissing("struct %s not found" % suffix)

    def enum(self, suffix):
        for crate, s in self.hir_items("enums"):
            p = self.qualify(norm(s["path"]), crate)
            if p == suffix or p.endswith("::" + suffix):
                return s
        raise AnchorMissing("enum %s not found" % suffix)


def _strip_lt(t):
    t = re.sub(r"for<[^>]*> ", "", t)
    t = re.sub(r"&'\w+ ", "&", t)
    t = re.sub(r"<'\w+(, '\w+)*>", "", t)
    t = re.sub(r"'\w+, ", "", t)
    return t


def _fnptr_sig(ty):
    t = _strip_lt(ty)
    m = re.match(r"^(?:unsafe )?(?:extern \"[^\"]*\" )?fn\((.*)\)(?: -> (.*))?$", t)
    if not m:
        return None
    args, ret = m.group(1), m.group(2) or "()"
    depth, n = 0, (1 if args.strip() else 0)
    for ch in args:
        if ch in "<([":
            depth += 1
        elif ch in ">)]":
            depth -= 1
        elif ch == "," and depth == 0:
            n += 1
    return n, ret


def _generic_like(t):
    return re.search(r"(?<![A-Za-z0-9_:])(Self|[A-Z])(?![A-Za-z0-9_])", t) is not None


KNOWN_EXTERN = {
    "std", "core", "alloc", "once_cell", "lasso", "codemap", "indexmap", "phf", "phf_shared", "rand", "rand_core",
    "getrandom", "clap", "clap_builder", "wasm_bindgen", "proc_macro", "proc_macro2", "quote", "syn", "hashbrown",
    "rand_chacha", "js_sys",
}


def _rv_operands(rv):
    out = []
    for k in ("op", "a", "b"):
        v = rv.get(k)
        if isinstance(v, dict) and "k" in v:
            out.append(v)
    for v in rv.get("ops", []):
        out.append(v)
    return out


def rv_operands(rv):
    return [Operand(o) for o in _rv_operands(rv)]


class AnchorMissing(Exception):
    """A rule could not find the code it is anchored in: fail closed."""


_prog_cache = {}


def load(config="default", repo=REPO):
    d = extract(config, repo)
    if d not in _prog_cache:
        _prog_cache[d] = Program(d)
    return _prog_cache[d]
