"""Interval abstract domain over f64 expressions of one MIR body (no execution: expressions are evaluated over intervals
following single-definition chains; multi-definition locals are joined; anything unknown is TOP)."""
import math

from .facts import Operand
from . import an

INF = float("inf")
TOP = (-INF, INF)


def _f(c):
    if c is None:
        return None
    if "f" in c:
        try:
            return float(c["f"])
        except ValueError:
            return None
    if c.get("ty") in ("i32", "u32", "i64", "u64", "usize", "isize", "u8", "i8", "u16", "i16") and "v" in c:
        try:
            return float(c["v"])
        except (TypeError, ValueError):
            return None
    return None


def join(a, b):
    return (min(a[0], b[0]), max(a[1], b[1]))


def within(a, b):
    return a[0] >= b[0] and a[1] <= b[1] and not any(math.isnan(x) for x in a)


def _mul(a, b):
    c = []
    for x in a:
        for y in b:
            if (x == 0 and math.isinf(y)) or (y == 0 and math.isinf(x)):
                c.append(0.0)
            else:
                c.append(x * y)
    return (min(c), max(c))


def _div(a, b):
    if b[0] <= 0 <= b[1]:
        return TOP
    return _mul(a, (1.0 / b[1], 1.0 / b[0]))


class Eval:
    """summaries: callee-name suffix -> function(eval, body, call, depth) -> interval"""

    def __init__(self, prog, env=None, summaries=None):
        self.prog = prog
        self.env = env or {}
        self.summaries = summaries or {}
        self.trace = []

    def operand(self, body, op, depth=0):
        if depth > 40:
            return TOP
        if op.place is None:
            v = _f(op.const)
            if v is not None:
                return (v, v)
            # constant Number(..) aggregates appear as valtree consts
            cv = op.const_value() if op.const is not None else None
            if isinstance(cv, (int, float)):
                return (float(cv), float(cv))
            return TOP
        return self.place(body, op.place.local, op.place.proj, depth)

    def place(self, body, local, proj, depth):
        proj = [e for e in proj if e["k"] != "deref"]
        if proj:
            e = proj[0]
            if e["k"] == "field":
                # Number(.0) is transparent; tuple / closure-env fields select an aggregate operand
                vals = None
                for bb, i, d in body.defs_of(local):
                    if isinstance(d, dict) and d["k"] == "agg" and d.get("agg") in ("tuple", "adt", "closure") and e["i"] < len(d.get("ops", [])):
                        v = self.operand(body, Operand(d["ops"][e["i"]]), depth + 1)
                        if proj[1:]:
                            v = TOP if "p" not in d["ops"][e["i"]] else self.place(body, d["ops"][e["i"]]["p"]["l"], d["ops"][e["i"]]["p"].get("p", []) + proj[1:], depth + 1)
                        vals = v if vals is None else join(vals, v)
                    else:
                        vals = None
                        break
                if vals is not None:
                    return vals
                if e.get("adt", "").endswith("number::Number") and not proj[1:]:
                    return self.place(body, local, [], depth + 1)
            return TOP
        if 1 <= local <= body.argc:
            return self.env.get(local, TOP)
        defs = body.defs_of(local)
        if not defs:
            return TOP
        out = None
        for bb, i, d in defs:
            v = self.definition(body, local, d, depth + 1)
            out = v if out is None else join(out, v)
        return out

    def definition(self, body, local, d, depth):
        if isinstance(d, dict):
            k = d["k"]
            if k == "use":
                return self.operand(body, Operand(d["op"]), depth)
            if k == "ref":
                return self.place(body, d["p"]["l"], d["p"].get("p", []), depth)
            if k == "agg" and d.get("agg") == "adt" and d.get("adt", "").endswith("number::Number") and d.get("ops"):
                return self.operand(body, Operand(d["ops"][0]), depth)
            if k == "binop":
                # a self-referential update (x = x / y) cannot be followed by definition chains
                for side in ("a", "b"):
                    if "p" in d[side] and d[side]["p"]["l"] == local:
                        return TOP
                a = self.operand(body, Operand(d["a"]), depth)
                b = self.operand(body, Operand(d["b"]), depth)
                op = d["op"]
                if op.startswith("Add"):
                    return (a[0] + b[0], a[1] + b[1])
                if op.startswith("Sub"):
                    return (a[0] - b[1], a[1] - b[0])
                if op.startswith("Mul"):
                    return _mul(a, b)
                if op == "Div":
                    return _div(a, b)
                if op == "Rem":
                    m = max(abs(b[0]), abs(b[1]))
                    if math.isinf(m) or m == 0:
                        return TOP
                    # Rust's % keeps the sign of the dividend
                    lo = 0.0 if a[0] >= 0 else -m
                    hi = 0.0 if a[1] <= 0 else m
                    return (lo, hi)
                return TOP
            if k == "unop" and d.get("op") == "Neg":
                src = d.get("a") or d.get("operand")
                if src:
                    a = self.operand(body, Operand(src), depth)
                    return (-a[1], -a[0])
            return TOP
        # call
        c = d
        name = c.name() or c.callee or ""
        for suffix, fn in self.summaries.items():
            if name.endswith(suffix):
                return fn(self, body, c, depth)
        t2 = an.tail2(c.callee)
        if name.endswith("f64>::rem_euclid") or name.endswith("f32>::rem_euclid"):
            m = self.operand(body, c.args[1], depth)
            mm = max(abs(m[0]), abs(m[1]))
            return (0.0, mm) if not math.isinf(mm) and m[0] * m[1] > 0 else TOP
        if name.endswith("f64>::clamp") or name.endswith("number::Number::clamp"):
            lo = self.operand(body, c.args[1], depth)
            hi = self.operand(body, c.args[2], depth)
            return (lo[0], hi[1])
        if name.endswith("f64>::abs"):
            a = self.operand(body, c.args[0], depth)
            return (0.0, max(abs(a[0]), abs(a[1])))
        if t2 in ("Deref::deref", "Clone::clone", "Into::into", "From::from") and c.args:
            return self.operand(body, c.args[0], depth)
        return TOP
