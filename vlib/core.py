"""Check runner: rule results, floors, known findings, evidence and replay files."""
import json
import os
import sys
import time
import traceback

from . import facts

VERIF = facts.VERIF
EVIDENCE = os.environ.get("VERIF_EVIDENCE_DIR") or os.path.join(VERIF, "evidence")
REPLAY = os.environ.get("VERIF_REPLAY_DIR") or os.path.join(VERIF, "replay")
KNOWN = os.path.join(VERIF, "known_findings.json")


class Violation:
    def __init__(self, rule, key, msg, where=None, detail=None):
        self.rule = rule  # e.g. "C13-a"
        self.key = key  # stable key without line numbers: "<function>|<callee/field>"
        self.msg = msg
        self.where = where  # "file:line" (informational only)
        self.detail = detail or {}

    def full_key(self):
        return "%s|%s" % (self.rule, self.key)

    def to_json(self):
        return {"rule": self.rule, "key": self.full_key(), "message": self.msg, "where": self.where, "detail": self.detail}


class RuleResult:
    """Outcome of one clause (rule) of a property."""

    def __init__(self, rule, title):
        self.rule = rule
        self.title = title
        self.instances = []  # every obligation examined: dict(key=..., verdict=..., ...)
        self.violations = []
        self.undecided = []
        self.notes = []
        self.floors = []  # (what, found, floor)

    def ok(self, key, **kw):
        self.instances.append(dict(key=key, verdict="discharged", **kw))

    def violate(self, key, msg, where=None, **detail):
        self.instances.append(dict(key=key, verdict="violated", where=where))
        self.violations.append(Violation(self.rule, key, msg, where, detail))

    def undecide(self, key, why, where=None):
        self.instances.append(dict(key=key, verdict="undecided", why=why, where=where))
        self.undecided.append(dict(key=key, why=why, where=where))

    def floor(self, what, found, floor):
        """Fail closed if fewer instances than confirmed by hand were found."""
        self.floors.append(dict(what=what, found=found, floor=floor))
        if found < floor:
            self.violations.append(
                Violation(
                    self.rule,
                    "floor|" + what,
                    "%s: rule matched %d instance(s) of '%s' but %d were confirmed by hand on the pinned tree; "
                    "the anchored code changed shape and the rule would pass vacuously (fail closed)" % (self.rule, found, what, floor),
                )
            )

    def note(self, s):
        self.notes.append(s)


def load_known():
    if not os.path.exists(KNOWN):
        return {"findings": [], "fixed": []}
    with open(KNOWN) as fh:
        return json.load(fh)


def run_check(prop_id, rules, tier, level="other", explanation="", assumptions=(), proof=None, configs=("default",)):
    """rules: list of callables(ctx) -> RuleResult | [RuleResult]. Returns process exit code."""
    t0 = time.time()
    seed = int(os.environ.get("VERIF_SEED", "0") or 0)
    results = []
    fatal = []
    ctx = Ctx(tier, configs)
    for rule in rules:
        try:
            r = rule(ctx)
            if isinstance(r, RuleResult):
                r = [r]
            results.extend(r)
        except facts.AnchorMissing as e:
            rr = RuleResult(getattr(rule, "rule_id", rule.__name__), "anchor missing")
            rr.violations.append(Violation(rr.rule, "anchor|" + rule.__name__, "anchor missing (fail closed): %s" % e))
            results.append(rr)
        except SystemExit:
            raise
        except Exception as e:  # a crash of the checker must not look like a pass
            fatal.append("%s: %s\n%s" % (rule.__name__, e, traceback.format_exc()))
    for cfg in ctx.loaded():
        if ctx.prog(cfg).collisions:
            fatal.append("path normalisation collision (two bodies share a name): %s" % ctx.prog(cfg).collisions[:5])
    known = load_known()
    known_keys = {}
    for f in known.get("findings", []):
        if f["property"] == prop_id:
            known_keys[f["key"]] = f
    viol_all = [v for r in results for v in r.violations]
    new = [v for v in viol_all if v.full_key() not in known_keys]
    listed = [v for v in viol_all if v.full_key() in known_keys]
    # evidence
    inst = [i for r in results for i in r.instances]
    distinct = len({(i.get("key")) for i in inst})
    samples = []
    for r in results:
        for i in r.instances[:3]:
            samples.append({"rule": r.rule, **{k: v for k, v in i.items() if v is not None}})
    if not samples:
        samples = [{"note": "no instances"}]
    cov = {
        "explanation": explanation,
        "evaluations": len(inst),
        "distinct_nontrivial": distinct,
        "rule": "one evaluation per rule instance (call site, table entry, CFG path obligation, item) found in the type-checked "
        "program of /repo's current tree; distinct = distinct instance keys (function + callee/field/entry); every instance is "
        "non-trivial in that it carries an obligation the rule had to discharge",
        "samples": samples[:40],
        "exhaustive": True,
        "units": ctx.units(),
        "configs": list(ctx.loaded()),
        "rules": [
            {
                "rule": r.rule,
                "title": r.title,
                "instances": len(r.instances),
                "discharged": sum(1 for i in r.instances if i["verdict"] == "discharged"),
                "violated": sum(1 for i in r.instances if i["verdict"] == "violated"),
                "undecided": len(r.undecided),
                "floors": r.floors,
                "notes": r.notes,
            }
            for r in results
        ],
        "undecided": [dict(rule=r.rule, **u) for r in results for u in r.undecided][:60],
        "known_findings_reported": [v.full_key() for v in listed],
        "new_violations": [v.to_json() for v in new][:60],
        "obligations": len(inst),
        "discharged": sum(1 for i in inst if i["verdict"] == "discharged"),
    }
    if proof:
        cov.update(proof)
    if fatal:
        cov["checker_errors"] = fatal
    ev = {
        "property_id": prop_id,
        "tier": tier,
        "seed": seed,
        "level": level,
        "coverage": cov,
        "assumptions": list(assumptions),
        "wall_s": round(time.time() - t0, 3),
        "violations": len(new),
    }
    os.makedirs(EVIDENCE, exist_ok=True)
    tmp = os.path.join(EVIDENCE, prop_id + ".json.tmp")
    with open(tmp, "w") as fh:
        json.dump(ev, fh, indent=1, default=str)
    os.replace(tmp, os.path.join(EVIDENCE, prop_id + ".json"))
    # report
    for r in results:
        print("[%s] %s: %d instance(s), %d discharged, %d violated, %d undecided" % (
            r.rule, r.title, len(r.instances), sum(1 for i in r.instances if i["verdict"] == "discharged"),
            len(r.violations), len(r.undecided)))
    for v in listed:
        f = known_keys[v.full_key()]
        print("KNOWN-FINDING: property=%s %s [%s] input: %s" % (prop_id, v.msg, v.full_key(), f.get("input", "")))
    if fatal:
        for f in fatal:
            sys.stderr.write("CHECKER ERROR: " + f + "\n")
        print("checker error in property %s (exit 2, not a verdict)" % prop_id)
        return 2
    if new:
        os.makedirs(REPLAY, exist_ok=True)
        for n, v in enumerate(new):
            path = os.path.join(REPLAY, "%s-%d.json" % (prop_id, n))
            with open(path, "w") as fh:
                json.dump({"property": prop_id, **v.to_json()}, fh, indent=1)
            print("%s  [%s]%s" % (v.msg, v.full_key(), (" at " + v.where) if v.where else ""))
            print("VIOLATION property=%s replay=%s" % (prop_id, path))
        return 1
    print("OK property=%s tier=%s (%d instances, %.1fs)" % (prop_id, tier, len(inst), time.time() - t0))
    return 0


class Ctx:
    def __init__(self, tier, configs=("default",)):
        self.tier = tier
        self.configs = configs
        self._progs = {}

    def prog(self, config="default"):
        if config not in self._progs:
            self._progs[config] = facts.load(config)
        return self._progs[config]

    def loaded(self):
        return self._progs.keys()

    def units(self):
        out = {}
        for c, p in self._progs.items():
            out[c] = {k: len(v["bodies"]) for k, v in p.crates.items()}
        return out

    def thorough(self):
        return self.tier == "thorough"
