"""Thorough tier: seeded-mutant self-test.

For every seeded change under /verif/seeded/ that lists this property in `caught_by` (meta.json), a scratch copy of /repo's
current tree is made outside /repo and /verif, the patch is applied, the property's quick check is run against the copy
(statically — the copy is never built into a binary or run) and must report the recorded rule.  A rule that no longer reports
its mutant is *toothless*: the thorough check then exits 2 (a checker failure, not a verdict about /repo).
Mutants whose patch no longer applies to the current tree are skipped and listed."""
import glob
import json
import os
import re
import shutil
import subprocess
import sys
import tempfile

from . import facts

VERIF = facts.VERIF


def seeds_for(prop):
    out = []
    for mp in sorted(glob.glob(os.path.join(VERIF, "seeded", "*", "meta.json"))):
        with open(mp) as fh:
            m = json.load(fh)
        cb = m.get("caught_by") or {}
        if prop in cb:
            out.append((os.path.basename(os.path.dirname(mp)), os.path.join(os.path.dirname(mp), "patch.diff"), cb[prop]))
    return out


def run(prop):
    """-> (records, toothless list)"""
    records, toothless = [], []
    for sid, patch, want_rules in seeds_for(prop):
        tmp = tempfile.mkdtemp(prefix="grass-verif-mutant-")
        try:
            dst = os.path.join(tmp, "repo")
            shutil.copytree(facts.REPO, dst, ignore=shutil.ignore_patterns("target", ".git"))
            r = subprocess.run(["patch", "-p1", "--no-backup-if-mismatch", "-s", "-i", patch], cwd=dst, stdout=subprocess.PIPE, stderr=subprocess.STDOUT, text=True)
            if r.returncode != 0:
                records.append({"seed": sid, "status": "skipped", "why": "patch does not apply to the current tree: " + r.stdout.strip()[:200]})
                continue
            env = dict(os.environ)
            env.update({"GRASS_REPO": dst, "VERIF_EVIDENCE_DIR": os.path.join(tmp, "evidence"), "VERIF_REPLAY_DIR": os.path.join(tmp, "replay"), "VERIF_TIER": "quick"})
            c = subprocess.run([sys.executable, os.path.join(VERIF, "check"), prop, "--tier", "quick"], env=env, stdout=subprocess.PIPE, stderr=subprocess.STDOUT, text=True)
            fired = sorted(set(re.findall(r"\[(%s-[a-z0-9]+)\|" % re.escape(prop), c.stdout)))
            # a recorded rule id ending in "-?" means the log line that named the rule was cut off: any violation of the property counts
            ok = c.returncode == 1 and (any(w in fired for w in want_rules) or any(w.endswith("-?") for w in want_rules))
            rec = {"seed": sid, "status": "caught" if ok else "MISSED", "expected_rules": want_rules, "rules_fired": fired, "exit": c.returncode}
            records.append(rec)
            if not ok:
                toothless.append(rec)
        finally:
            shutil.rmtree(tmp, ignore_errors=True)
    return records, toothless
