"""Property -> rule module registry with the claim text that is copied into the evidence."""

TRUSTED = [
    "rustc nightly 1.97: HIR/MIR construction, type checking and trait resolution (Instance::try_resolve)",
    "the grass-facts driver (/verif/driver) faithfully serialises MIR/HIR facts",
    "std library contracts for the std functions named in the rules",
]

REGISTRY = {
    "C13": dict(
        module="c13",
        level="other",
        technique="static analysis: who-may-call rule on the resolved call graph + symbolic table extraction from MIR (probe order, classification tables) compared with a spec table",
        claim=(
            "Structural clauses only (static, all call sites / all CFG paths of the current tree): Fs confinement (exact who-may-call rule over resolved callees), "
            "probe-order table of find_import vs the documented order, no suffix-replacing candidate construction, for_import/load-path must-reach rules, "
            "plain-CSS classification and syntax-by-extension tables, and every key used on the import cache / files_seen is the path find_import returned (the cache cannot bypass the search), and once an explicit .sass/.scss/.css extension is recognised no path leads on to the extension-adding probes. Not a statement about search results on concrete directory trees."
        ),
        explanation=(
            "Static analysis of the type-checked program (MIR with resolved callees) of /repo's current tree. Decided clauses: "
            "(a) no function in grass_compiler/grass/include_sass touches the real file system except `impl Fs for StdFs` "
            "(and FileTracker's canonicalize bookkeeping), every `dyn Fs` call lies in the import search/entry points and its receiver is options.fs; "
            "(b) the Fs probes of find_import, as symbolic candidate expressions in dominance order, equal the documented candidate order; "
            "(c) no candidate is built with Path::with_extension (suffix replacement); (d) for_import reaches the search and load paths are consulted "
            "before every None; (e) is_plain_css_import / parse_import_argument classification table; (f) InputSyntax::for_path table and parse_file dispatch. "
            "NOT decided: that only candidate paths are probed for arbitrary path values, ambiguity handling, the behaviour of the search on a concrete directory tree."
        ),
        assumptions=TRUSTED,
    ),
}
REGISTRY["C08"] = dict(
    module="c08",
    level="other",
    technique="static analysis: table extraction by straight-line abstract evaluation of the Lazy initialiser + sibling-table agreement; predicate-sensitive guard dominance over MIR for conversion sites; dimensional direction of cancellation factors; predicate-sensitive 'built only under comparable()' and 'raw magnitudes only under equal units' analyses",
    claim=(
        "Structural clauses: (a) all 82 entries of UNIT_CONVERSION_TABLE, extracted statically from the initialiser, equal the CSS ratios and the table is "
        "reciprocal/transitive/closed; (b) Unit::kind, the table's row groups, comparable()'s decision structure (summarised per CFG path and evaluated over all 34x33 unit pairs), "
        "KNOWN_COMPATIBILITIES and From<String>/Display agree; (c) every Number::convert / conversion_factor().unwrap() site is guarded on every path by comparable()/wrappers on the same pair; "
        "(d) conversion direction (from = own unit, to = the other operand's / result's unit), the unit-selection ladder of the four add/sub implementations, and the dimensional direction of the two unit-cancellation sites in multiply_units (value divided by conversion_factor(denominator, numerator)); (e) visit_number rejects complex units and no other function formats a number's unit into a string value without excluding compound units (5 functions do: known findings); (f) in every comparable()-guarded arm a number is built only on paths that passed comparable(), found equal units, or a unitless side; (g) the two unconverted magnitudes are compared or combined only where the units were found equal or one side is unitless. "
        "Not decided: arithmetic results for sampled magnitudes, which units multiply_units cancels (only the direction of the factor)."
    ),
    explanation=(
        "Clauses C08-a..e as in DESIGN.md §3 C08, decided on MIR facts of the current tree: the table initialiser is evaluated abstractly (no execution), "
        "comparable() is summarised by CFG path conditions and evaluated over the finite unit domain, conversion sites are checked by a predicate-sensitive forward analysis. "
        "NOT decided: numeric results of arithmetic, unit multiplication/cancellation."
    ),
    assumptions=TRUSTED + ["E3 spec table: CSS absolute unit ratios (css-values-4)"],
)
REGISTRY["C01"] = dict(
    module="c01",
    level="other",
    technique="static analysis: error-kind typestate over the resolved call graph; predicate-sensitive guard dominance; lexer-progress abstract interpretation of parser loops; reachability of explicit panic macros; exact reviewed inventory of panic-capable operations in the error path; predicate-sensitive guard analysis of unsigned subtractions",
    claim=(
        "Seven structural clauses, each a necessary condition of totality, decided for all sites of the current tree: (a) only Raw errors can reach SassError::raw(); "
        "(b) every unit conversion is guarded on every path; (c) each of the 84 loops of the parsers provably consumes input on every cycle (67), is driven by a finite std iterator (7) or is one of 10 hand-reviewed exceptions, and no loop has a forced cycle at end of input; "
        "(d) every todo!/unimplemented!/assert! site is unreachable, guarded, or in the reviewed list; (e) the panic-capable operations inside error.rs (building, classifying and rendering an error) are exactly the four reviewed ones; (f) in the indented-syntax comment parsers `current_indentation - parent_indentation` cannot underflow (saturating, or every read_indentation() is preceded by peek_indentation() >= parent); (g) Lexer::new_from_string derives is_expanded from the byte length of the text against the span length. NOT decided: the ~230 unwrap/unreachable!/index sites resting on value invariants, "
        "stack exhaustion on deep nesting, termination of evaluation/serialisation."
    ),
    explanation=(
        "Clauses C01-a..d of DESIGN.md §3 decided on MIR facts: error kinds are propagated over the call graph from the four From impls to the raw_to_parse_error sites; "
        "conversion sites are checked by a predicate-sensitive forward analysis; parser loops by a lexer-state abstract interpretation with function summaries; panic-macro sites by call-graph "
        "reachability plus guard/contradiction arguments. NOT decided: other panic classes (inventoried, unarmed), recursion depth, evaluation termination."
    ),
    assumptions=TRUSTED + ["evaluation errors are never swallowed (checked: only Environment::{get_mixin,get_var} match on Err)"],
)
REGISTRY["C07"] = dict(
    module="c07",
    level="other",
    technique="static analysis: format-template extraction (precision/width of fmt::Arguments constants), predicate-sensitive extraction of the decision tables of the numeric helper functions, operand wiring by access-path tracing",
    claim=(
        "Definitional clauses only, no arithmetic is evaluated: (a) both functions that print a number (Serializer::write_float, Number::to_string) format the magnitude with `{:.10}`, "
        "trim trailing zeros then a trailing dot, normalise empty/`-`/`-0` to `0` and spell infinities out; (b) Number % Number is modulo(), whose decision table is "
        "{divisor > 0: rem_euclid; = 0: NaN; < 0: 0 or rem_euclid + divisor} (sign of the divisor); (c) PRECISION = 10, epsilon = 10^-11, inverse_epsilon = 10^11, and "
        "fuzzy_less_than / fuzzy_less_than_or_equals / fuzzy_as_int have their reference definitions over `<` and fuzzy_equals (whose own shape is C09-f). "
        "NOT decided: that arithmetic equals IEEE double arithmetic, correct rounding of the printed digits, sass:math function values, re-reading the printed text."
    ),
    explanation="Clauses C07-a..c: definitions of the number helpers compared with their reference definitions on MIR facts of the current tree. NOT decided: any numeric result.",
    assumptions=TRUSTED + ["Rust's `{:.N}` formatting of f64 prints plain decimal notation with N fractional digits, correctly rounded"],
)
REGISTRY["C19"] = dict(
    module="c19",
    level="other",
    technique="static analysis: error-kind typestate at the API boundary; who-may-call and guard rules for the Logger and std streams; must-depend flow for the @warn de-duplication key; format-template extraction",
    claim=(
        "Structural clauses: (a) the public entry points can only return ParseError/IoError/FromUtf8Error (never Raw), SassError kinds are built only by the From impls; "
        "(b) Logger::{warn,debug} are called only from emit_warning/visit_debug_rule, on options.logger, under options.quiet == false on every path, and no library code writes to stdout/stderr except StdLogger (stderr); "
        "(c) the @warn suppression key includes the evaluated message; (d) every renderable kind prints `Error: ` first and the caret width is max-min; (e) Logger locations derive from the directive's span. "
        "NOT decided: that spans lie inside the named file for re-lexed interpolated text; delivery counts."
    ),
    explanation=(
        "Clauses C19-a..e of DESIGN.md §3 on MIR facts of the current tree. NOT decided: span validity for re-lexed text, `exactly once` as a count, @error inspect semantics."
    ),
    assumptions=TRUSTED,
)
REGISTRY["C20"] = dict(
    module="c20",
    level="other",
    technique="static analysis of main's MIR: flag->builder table extraction with polarity, value-flow from the library result to the single output write, error-handler shape (eprintln + non-zero exit), `?` propagation of I/O results",
    claim=(
        "Structural clauses over `main`: flag/builder pairs with polarity equal the documented map and the fully built Options reaches from_path/from_string, the load-path list being passed as collected from clap (never sorted, de-duplicated or filtered); the only output write is write_all of exactly the Ok payload, "
        "to stdout or the OUTPUT file, which is opened create+write+truncate; the Err path prints the error with eprintln! and exits with a non-zero constant before any write; I/O results propagate with `?`, and the sink is written directly (a BufWriter/LineWriter would need a propagated flush on every path after the write). "
        "NOT decided: process-level behaviour as such (clap parsing, OS errors, what the library returns)."
    ),
    explanation="Clauses of DESIGN.md §3 C20, decided on the MIR of grass::main and its closures in the current tree. NOT decided: clap's parsing, OS-level behaviour, equality of CLI and library output as executed.",
    assumptions=TRUSTED + ["E3: documented CLI flag -> Options builder map"],
)
REGISTRY["C09"] = dict(
    module="c09",
    level="other",
    technique="static analysis: variant-pair matrix extraction from the two-level match of Value::eq / not_equals (symmetry and complement), HIR impl facts (no `ne` override), who-may-call rules on SassMap's entry vector, predicate-sensitive guard analysis for insert/visit_map",
    claim=(
        "Structural clauses: (a) the variant-pair matrix of Value::eq is symmetric and reflexive-capable, Value::not_equals is never constant-true where == can be true, and for every pair both handle in an arm of their own the two arms compare the same attributes (separator, brackets, length, elements, ...); (b) no PartialEq impl of a value type overrides `ne`, "
        "visit_bin_op maps Equal/NotEqual to eq/ne; (c) every key comparison in SassMap and index() is Value's ==/not_equals; (d) SassMap's vector is only pushed/retained/iterated and insert pushes only after the search missed; "
        "(e) visit_map inserts only after the duplicate test and duplicates are Err; (f) number equality is key-induced: fuzzy_equals returns true only under k(a) == k(b) for one per-operand expression k (a bucket partition, hence transitive) and Number's == is exactly fuzzy_equals, which returns true directly for identical operands (reflexive for infinities). NOT decided: transitivity across unit conversion (1in == 96px == ...), which rests on floating-point values."
    ),
    explanation="Clauses C09-a..e of DESIGN.md §3, decided on MIR/HIR facts of the current tree. NOT decided: equivalence laws through fuzzy numeric comparison, values of comparisons.",
    assumptions=TRUSTED,
)
REGISTRY["C17"] = dict(
    module="c17",
    level="other",
    technique="static analysis: must-depend guard facts at every construction of MediaQueryMergeResult::Empty/Unrepresentable; arm-action table extraction of merge_media_queries and visit_media_rule; predicate valuations per result site of MediaQuery::merge compared with a transliterated dart-sass reference over the complete abstract domain (4608 cases)",
    claim=(
        "Decision-structure clauses: every Empty result of MediaQuery::merge is control-dependent on this_type == other_type, on exactly one query being negated and on the subset test; "
        "double negation with different types is Unrepresentable; merge_media_queries maps Empty/Unrepresentable/Success to skip/None/push over the cartesian product; a merged rule passes an enclosing @media only if all of its queries are merge sources (Iterator::all); merge_media_queries returns the list built from the merge results, never an input list; "
        "visit_media_rule drops an empty intersection before creating a node and keeps unmergeable queries nested. (c) the outcome category (Empty / Unrepresentable / Success) of merge, extracted as predicate valuations per result site, equals a transliteration of dart-sass's merge on all 4608 combinations of conjunction, modifier, type (none/all/two concrete) and subset relations. In the one-negated/different-types branch the conditions kept are those of the positive query. NOT decided: the other components a Success carries."
    ),
    explanation="Clauses of DESIGN.md §3 C17 on MIR facts of the current tree. NOT decided: that the merged query is the logical intersection for all environments.",
    assumptions=TRUSTED,
)
REGISTRY["C05"] = dict(
    module="c05",
    level="other",
    technique="static analysis: provenance rule over every mutation of the serializer's byte buffers (who-may-call + constant classification + byte-set path analysis of the copy loops), unsafe inventory, predicate-sensitive guard analysis of the charset/BOM decision, visibility-filter dominance; evaluation of the escaping decision blocks over all 256 byte values; predicate valuations of is_ident's first-character test",
    claim=(
        "Encoding and visibility clauses: (a) every write to Serializer.buffer / the local quoting buffer is an ASCII constant, a whole str, fmt output or the in-order copy of a source byte, no cutting operation is ever applied, "
        "and in the two byte-copy loops a byte >= 0x80 is always copied unchanged with nothing interleaved (safety of the two from_utf8_unchecked); (b) the unsafe inventory is exactly the three reviewed blocks; "
        "(c) BOM/@charset are inserted exactly under (non-ASCII, allows_charset[, compressed]) and nothing else reads allows_charset; (d) invisible selectors/statements are filtered before any write; (e) in quoted strings the escaped byte set is exactly the C0 controls except tab (decision blocks evaluated for all 256 byte values) and a hex escape is followed by a space before a hex digit, space or tab; (f) attribute values are written unquoted only under is_ident(), which reaches its scanning loop only for a first character that is a non-digit name-start character; (g) the indented-syntax loud comment tests for its closing `*/` on text with trailing whitespace trimmed; (h) a negation nested in a @supports condition is written in parentheses. "
        "NOT decided: balanced braces/strings/comments, absence of Sass-only syntax in values, re-parse idempotence."
    ),
    explanation="Clauses C05-a..d of DESIGN.md §3 on MIR/HIR facts of the current tree. NOT decided: well-formedness of the emitted text as CSS, fixed-point behaviour.",
    assumptions=TRUSTED + ["io::Write for Vec<u8> and core::fmt write whole UTF-8 strs"],
)
REGISTRY["C02"] = dict(
    module="c02",
    level="other",
    technique="static analysis: source->sink flow from unordered/interning-ordered traversals to order-sensitive consumers; statics/ambient-input inventory (who-may-call); struct-literal freshness of per-compilation state",
    claim=(
        "Every source of non-determinism is enumerated and confined: (a) hash-collection iteration and (b) ordered traversal of BTree collections keyed by Identifier (interning order) must end in an order-insensitive consumer; "
        "(c) every static is an immutable table, an identity counter whose value is only stored as an id, or the thread-local interner, and the interner is only used through get_or_intern/resolve (no query that reveals what earlier compilations interned); (d) randomness/time/env/address reads occur only in random(), unique-id() and the pointer hash; "
        "(e) Visitor/CodeMap/Serializer are built fresh per entry-point call from arguments or empty values. NOT decided: that these are the only channels; byte-identical output under concurrency as such."
    ),
    explanation="Clauses C02-a..e of DESIGN.md §3 on MIR/HIR facts of the current tree; known findings list the traversals whose order reaches output. NOT decided: allocator-address channels (Arc::ptr_eq), unique-id() distinctness, concurrency as executed.",
    assumptions=TRUSTED + ["HashMap/HashSet iteration order is unspecified; BTreeMap order follows the key's Ord, which for Identifier is the interner key"],
)
REGISTRY["C06"] = dict(
    module="c06",
    level="other",
    technique="static analysis: who-may-read rule for the style flag (Options::is_compressed / Options.style) and for serializer entry points called with the user's Options, over the resolved call graph",
    claim=(
        "Style-flag confinement: outside serializer.rs/lib.rs no function reads the output style, passes a non-constant style to Value::to_css_string/Number::to_string, or serializes text for SassScript with the caller's Options; "
        "the compressed comment-retention predicate is exactly `/*!`; compressed colour spellings (short hex only when red, green and blue are all doubled digits; names only when not longer) denote the same colour; (d) no number text is cut at a constant offset without a test of the prefix being dropped (compressed `0.x` -> `.x`); (e) visit_quoted_string / visit_unquoted_string, which copy string contents, never consult the style. Each function that does is a separate finding. NOT decided: that expanded and compressed outputs are equivalent CSS."
    ),
    explanation="Clauses of DESIGN.md §3 C06 on MIR facts of the current tree; the evaluation-time readers of the style flag on the pinned tree are listed as known findings, each with an input whose SassScript-visible result differs between styles. NOT decided: CSS equivalence of the two outputs.",
    assumptions=TRUSTED,
)
REGISTRY["C15"] = dict(
    module="c15",
    level="other",
    technique="static analysis: extraction of the phf tables from the static's promoted constants and comparison with an independent CSS table; who-may-construct rule and clamp-provenance check for Color; predicate-sensitive guard analysis of visit_color; interval abstract interpretation of hue arithmetic up to hue_to_rgb; per-constructor reviewed callers; channel-rounding provenance",
    claim=(
        "Table and constructor clauses: (a) all 148 CSS named colours (independent table in spec/) are in name_to_rgba with alpha 0xFF, `transparent` is rgba(0,0,0,0), rgba_to_name is a right inverse; "
        "(b) Color's fields are private, struct literals occur only in new_rgba/new_hsla/new, the raw constructors are called only from the reviewed set, and from_rgba/from_rgba_fn/from_hwb/from_hsla clamp every parameter "
        "(from_hsla's alpha obligation is checked at its callers, and update_value — the root those callers rely on — clamps in its Adjust arm and returns the range-checked parameter in its Change arm; each reviewed caller may use only the raw constructor it was reviewed for — hex literals new_rgba, the named table new); (c) compressed output writes a name only if it fits and 3-digit hex only under can_use_short_hex, which requires is_symmetrical_hex of red, green and blue together; (e) rgb()/rgba() and scale/adjust/change-color hand fuzzy_round'ed channels to the clamping constructors; (d) interval analysis: every hue handed to hue_to_rgb lies in [-1, 2] turns (it corrects by one turn at most), with `Number % 360` shown to be the non-negative modulo. "
        "NOT decided: HSL/HWB round trips and the colour-function laws (numeric)."
    ),
    explanation="Clauses C15-a..c of DESIGN.md §3 on MIR/HIR facts of the current tree and spec/css_named_colors.json. NOT decided: numeric conversions, rounding at .5 boundaries, colour-function identities.",
    assumptions=TRUSTED + ["spec/css_named_colors.json (npm color-name, cross-checked against prompt_toolkit) is the CSS Color 4 named-colour list"],
)
REGISTRY["C14"] = dict(
    module="c14",
    level="other",
    technique="static analysis: registration-table extraction by abstract evaluation of the declare() functions; (function, position, name) extraction from argument getters; who-may-call rule for byte-level string operations",
    claim=(
        "Registry and signature clauses: (a) every sass:list/map/string member with a documented global alias is bound to the same fn item as that alias, no duplicate or underscore registrations; "
        "(b) every constant (position, name) read by the list/map/string built-ins and every max_args equals the documented signature; "
        "(c) str-length/slice/index/insert count positions with chars(), never with byte lengths or byte indices; (d) nested-key map walks reassign their cursor map on every path through an iteration; (e) to-upper-case/to-lower-case use the ASCII case operations only; (f) zip() takes the minimum of the argument lengths. NOT decided: index arithmetic, separator/bracket inference, error cases (value semantics)."
    ),
    explanation="Clauses C14-a..c of DESIGN.md §3 on MIR facts of the current tree and spec/builtin_{aliases,signatures}.json. NOT decided: the values the functions return.",
    assumptions=TRUSTED + ["spec tables transcribed from the Sass documentation"],
)
REGISTRY["C12"] = dict(
    module="c12",
    level="other",
    technique="static analysis: predicate-sensitive guard analysis of the member views (sibling agreement across the MapView interface), must-reach flow of show/hide lists, registry table agreement, guard/pairing rules for the module cache and the active-module set, must-pass-through of assert_public at namespaced constructions; classification of every definition reaching load_module's configuration argument; type-level facts about the name sets of @forward ... with",
    claim=(
        "Structural clauses: (a) Public/Limited/Prefixed member views forward get/remove/insert only under their predicate and list keys consistently; (b) @forward show/hide lists reach LimitedMapView on top of the prefixed view, and forwarded_map returns the map unwrapped only when there is no show list at all (an empty show list hides everything); "
        "(c) sass:math/meta/selector/color members equal their global aliases; (d) execute() evaluates only on a cache miss and registers the module, load_module brackets execute with the active-module set and errors on a loop; "
        "(e) every namespaced member reference built by the parser passed assert_public; (f) load_module receives a configuration built from the rule's own `with` clause or an empty one at every call outside @forward (a plain `@use` never inherits the enclosing module's configuration); (g) the module cache / active-module set are keyed by Fs::canonicalize and StdFs::canonicalize is exactly std::fs::canonicalize (no shortcut that keeps symlinked spellings apart); (h) in visit_forward_rule the names exempt from remove_used_configuration are the unguarded ones (filtered) while the names kept for assert_configuration_is_empty are all of the rule's own (unfiltered). NOT decided: the rest of `with` configuration semantics, diamond/emission order, namespace shadowing."
    ),
    explanation="Clauses C12-a..e of DESIGN.md §3 on MIR facts of the current tree. NOT decided: configuration semantics, CSS emission order across modules.",
    assumptions=TRUSTED + ["spec/builtin_aliases.json transcribed from the Sass documentation"],
)
REGISTRY["C16"] = dict(
    module="c16",
    level="other",
    technique="static analysis: predicate-sensitive guard dominance for unit conversion in calculation.rs; decision-table extraction of parenthesize_calculation_rhs compared with real arithmetic; guard/arm extraction of the sign flip; dominance of verify_compatible_numbers",
    claim=(
        "Crash and printing-table clauses: (a) every unit conversion in value/calculation.rs is guarded on the same pair on every path; (b) the full truth table of parenthesize_calculation_rhs equals "
        "`a o (b . c)` needing parentheses under real arithmetic, and the serializer uses it (right) and precedence() (left); (c) a negative right operand is negated and flips +/-; "
        "(d) unsimplified min/max/clamp and +/- operations are built only after verify_compatible_numbers; (e) every conversion in the folding code goes from the operand's own unit to the unit of the operand it is compared with; (f) verify_compatible_numbers tests has_possibly_compatible_units inside two nested loops (every pair, the relation is not transitive); (g) an interpolated left operand of a calculation operation is always parenthesised. NOT decided: numeric equivalence of source and output expressions."
    ),
    explanation="Clauses of DESIGN.md §3 C16 on MIR facts of the current tree. NOT decided: that simplification preserves the computed value for all inputs.",
    assumptions=TRUSTED,
)
REGISTRY["C18"] = dict(
    module="c18",
    level="other",
    technique="static analysis: HIR override inventory of the three parser impls; table extraction of the lexer's newline normalisation and of CssParser::parse_at_rule; who-may-construct rule for Identifier; guard rules for is_plain_css",
    claim=(
        "Shared-table clauses: (a) the StylesheetParser/BaseParser methods each front end overrides are exactly the reviewed hook sets and is_indented/is_plain_css return the fixed constants; "
        "(b) TokenLexer::next maps exactly FF, CR, CRLF to one `\\n`, consumes the LF after CR with one call and advances the byte position by 1 on exactly the paths that consumed it; (c) Identifier is only built by from_str, every Identifier built there wraps a normalised get_or_intern, scope maps are keyed by it, and the @forward prefix (a plain String matched against normalised names) is read with normalisation at every AstForwardRule construction; "
        "(d) CssParser::parse_at_rule rejects exactly dart-sass's set of Sass-only at-rules and every listed Sass-only construct has an is_plain_css() guard leading to Err; (e) the tab/space flags of the indented syntax are re-initialised for every line peek_indentation scans; (f) the BOM skip sits in a parser method no front end overrides; (g) the scan for a file's leading @use/@forward rules skips variable declarations, loud and silent comments alike. "
        "NOT decided: that SCSS and indented inputs produce identical CSS."
    ),
    explanation="Clauses C18-a..d of DESIGN.md §3 on HIR/MIR facts of the current tree. NOT decided: behavioural equality of the front ends on concrete programs.",
    assumptions=TRUSTED + ["E3: dart-sass 1.54 CssParser rejected at-rule set"],
)
REGISTRY["C03"] = dict(
    module="c03",
    level="other",
    technique="static analysis: pairing / must-pass-through on non-Err CFG paths for discovered save-restore instances; who-may-write rule for the variable-slot cache; table extraction (precedence) and guard dominance (short-circuit, if(), binding order); loop-exit reachability after a produced value; type-level iterator facts (Chain/Cycle); destructive-operation inventory on Arc-shared scope maps",
    claim=(
        "Structural discipline clauses: (a,b) every discovered temporary override of scopes, flags, env, content, configuration and import path (34 instances frozen from the pinned tree) is restored on every non-Err exit; "
        "(c) only the lookup/insert functions write Scopes.last_variable_index, every scope pop / variable removal resets it, and every insertion into a scope map first refreshes the cache to that (name, index), resets it, or targets index 0; (d) BinaryOp::precedence follows the Sass order, and/or evaluate the right operand only under the "
        "right truthiness, if() evaluates exactly one branch; (e) arguments are evaluated before the environment switch, verify precedes binding, positional binding precedes defaults precedes the body; (f) scope maps, which closures share by Arc (new_closure clones the Arcs), are only inserted into: destructive BTreeMap operations on Identifier-keyed value/mixin/function maps are an exact reviewed inventory; (g) @each zips its variables with the element's values chained with an unbounded null iterator (type-level: Chain<IntoIter<Value>, Cycle/Repeat<..>>); (h) in the @for/@each/@while visitors no path leads from `visit_stmt produced a value` back to the header of an enclosing loop. "
        "NOT decided: that the values computed are the specified ones; !global/!default semantics; closure capture; @content scope."
    ),
    explanation="Clauses C03-a..e of DESIGN.md §3 on MIR facts of the current tree. NOT decided: evaluation results.",
    assumptions=TRUSTED + ["evaluation errors abort the compilation (Err exits need no restore)"],
)
REGISTRY["C04"] = dict(
    module="c04",
    level="other",
    technique="static analysis: pairing on non-Err CFG paths for the CSS-tree cursor state; who-may-mutate rule for the tree index maps; guard dominance and sibling cross-check of the bubbling visitors",
    claim=(
        "CSS-tree cursor discipline, a necessary condition of correct re-parenting/bubbling: (a) parent, style_rule_ignoring_at_root, media_queries(+sources), declaration_name and the at-root/keyframes/unknown-at-rule flags "
        "(19 instances) are restored on every non-Err exit; (b) parent_to_child/child_to_parent are mutated only, and together, by CssTree::add_child/link_child_to_parent; (c) add_child copies the parent exactly under "
        "has_following_sibling, and visit_media_rule/visit_supports_rule/visit_unknown_at_rule all re-create the style rule exactly under style_rule_exists(); (d) visit_at_root_rule evaluates the body in the copy of the innermost kept ancestor (or in the kept root itself when nothing is copied). NOT decided: the flattening semantics itself."
    ),
    explanation="Clauses C04-a..c of DESIGN.md §3 on MIR facts of the current tree. NOT decided: cross product, `&` substitution, ordering of emitted rules.",
    assumptions=TRUSTED + ["evaluation errors abort the compilation (Err exits need no restore)"],
)
REGISTRY["C10"] = dict(
    module="c10",
    level="other",
    technique="static analysis: must-reach rule (a field must have an error-producing reader / a consulted map must have a writer), visibility-filter dominance shared with C05-d, no-effect-operation-on-temporary detector; loop totality (must-pass) of register_selector; sibling accessor agreement for specificity bounds; provenance of popped components in merge_final_combinators",
    claim=(
        "Six structural clauses only: (a) Extension/ExtendRule.is_optional must be read by a branch whose mandatory edge can produce an Err (`extending a missing target is an error unless !optional`); "
        "(b) placeholder selectors are filtered before anything is written (C05-d); (c) the media contexts consulted while extending are recorded by some writer, and `get_mut(k).replace(v)` on temporaries are reported (undecided); (d) register_selector records the rule under every simple selector and always descends into the inner list of a selector pseudo, independent of what the index already holds; (e) every min_specificity/max_specificity accessor reads and sums only its own bound, simple selectors carry the CSS weights, and pseudo-element vs pseudo-class weight is decided by `is_class`; (f) merge_final_combinators pushes a popped component back only onto the list it was popped from; (g) extend_pseudo merges pseudos only when name and argument agree. "
        "NOT decided: everything that makes @extend interesting - that rewritten selectors match the right elements, second-law specificity, trimming, media scoping semantics."
    ),
    explanation="Clauses of DESIGN.md §3 C10 on MIR facts of the current tree. Both (a) and the media-context part of (c) are violated on the pinned tree (missing features) and listed as known findings with reproducing inputs. NOT decided: matching semantics of extended selectors.",
    assumptions=TRUSTED,
)

UNBUILT = "check not built yet in this session (design in DESIGN.md §3); not claimed until its rules run clean on the pinned tree"
NOT_APPLICABLE = {
    "C11": "soundness w.r.t. element matching quantifies over all DOMs; the code is index arithmetic with no table/pairing structure to check statically (DESIGN §4)",
}
for _p in ["C%02d" % i for i in range(1, 21)]:
    if _p not in REGISTRY and _p not in NOT_APPLICABLE:
        NOT_APPLICABLE[_p] = UNBUILT
