"""Intra-procedural analysis helpers on the MIR model: value tracing to access paths,
boolean-condition tracing, edge dominance, guard facts, path queries."""
from .facts import Place, Operand, Call, rv_operands

PASSTHROUGH = {
    "Deref::deref", "DerefMut::deref_mut", "AsRef::as_ref", "AsMut::as_mut", "Borrow::borrow", "BorrowMut::borrow_mut",
    "Clone::clone", "Option::as_ref", "Option::as_mut", "Option::as_deref", "Option::as_deref_mut", "Option::unwrap",
    "Option::expect", "Result::unwrap", "Result::expect", "Into::into", "From::from", "ToOwned::to_owned",
    "String::as_str", "Vec::as_slice", "Box::new", "Arc::new", "Rc::new", "RefCell::borrow", "RefCell::borrow_mut",
    "RefCell::new", "Cell::get", "mem::take", "mem::replace", "hint::must_use", "Option::cloned", "Option::copied",
    "Path::to_path_buf", "Option::unwrap_or_else", "Option::unwrap_or",
}


def segments(name):
    """Split a path on `::` at angle-bracket depth 0."""
    out, depth, cur, i = [], 0, [], 0
    while i < len(name):
        c = name[i]
        if c == "<":
            depth += 1
        elif c == ">" and (i == 0 or name[i - 1] != "-"):
            depth -= 1
        if depth == 0 and name.startswith("::", i):
            out.append("".join(cur))
            cur = []
            i += 2
            continue
        cur.append(c)
        i += 1
    out.append("".join(cur))
    return out


def tail2(name):
    """`a::b::Type::method` -> `Type::method`; `<X as a::Trait>::m` -> `Trait::m`;
    `m::<impl a::Trait for T>::f` -> `Trait::f`; `m::<impl T>::f` -> `T::f`."""
    if not name:
        return ""
    segs = segments(name)
    if len(segs) < 2:
        return name
    seg, m = segs[-2], segs[-1]
    if seg.startswith("<impl "):
        inner = seg[len("<impl "):-1]
        seg = segments(inner.split(" for ")[0])[-1]
    elif seg.startswith("<") and " as " in seg:
        seg = segments(seg[1:-1].split(" as ", 1)[1])[-1]
    return seg + "::" + m


_getter_cache = {}


def getter_fields(prog, name):
    """If `name` is a local accessor `fn f(&self) -> &T { &self.a.b }` return ('a','b'), else None."""
    if not name:
        return None
    key = (id(prog), name)
    if key in _getter_cache:
        return _getter_cache[key]
    _getter_cache[key] = None
    b = prog.bodies.get(name)
    if b is None or b.argc != 1 or len(b.blocks) > 3 or b.calls():
        return None
    ap = trace_local(b, 0, through_calls=False)
    if ap.root == ("arg", 1) and ap.proj and all(not p.startswith("as:") and p not in ("[]", "[c]") for p in ap.proj):
        _getter_cache[key] = tuple(ap.proj)
    return _getter_cache[key]


def is_passthrough(call):
    return tail2(call.callee) in PASSTHROUGH


class AP:
    """Access path: root + projection names (derefs and refs dropped)."""

    __slots__ = ("root", "proj")

    def __init__(self, root, proj=()):
        self.root = root
        self.proj = tuple(proj)

    def extend(self, items):
        return AP(self.root, self.proj + tuple(items))

    def key(self):
        return (self.root, self.proj)

    def __eq__(self, o):
        return isinstance(o, AP) and self.key() == o.key()

    def __hash__(self):
        return hash(self.key())

    def __repr__(self):
        r = self.root
        if r[0] == "arg":
            s = "arg%d" % r[1]
        elif r[0] == "call":
            s = "%s()@bb%d" % (r[1].rsplit("::", 1)[-1], r[2])
        elif r[0] == "const":
            s = "const(%r)" % (r[1],)
        else:
            s = "%s%s" % (r[0], r[1:])
        for p in self.proj:
            s += "." + str(p)
        return s


def proj_names(place):
    out = []
    for e in place.proj:
        k = e["k"]
        if k == "field":
            out.append(e.get("n", "#%d" % e["i"]))
        elif k == "downcast":
            out.append("as:" + str(e.get("n", e["i"])))
        elif k == "index":
            out.append("[]")
        elif k in ("cindex", "subslice"):
            out.append("[c]")
    return out


def trace_local(body, l, depth=0, through_calls=True, _seen=None):
    if _seen is None:
        _seen = set()
    if l in _seen or depth > 40:
        return AP(("local", l))
    _seen.add(l)
    defs = body.defs_of(l)
    if 1 <= l <= body.argc and not defs:
        return AP(("arg", l))
    if len(defs) != 1:
        return AP(("local", l))
    b, i, d = defs[0]
    if isinstance(d, Call):
        if through_calls and d.args:
            g = getter_fields(body.prog, d.name())
            if g is not None:
                return trace_operand(body, d.args[0], depth + 1, through_calls, _seen).extend(g)
        if through_calls and is_passthrough(d) and d.args:
            a = d.args[0]
            r = trace_operand(body, a, depth + 1, through_calls, _seen)
            if d.callee.endswith("::unwrap") or d.callee.endswith("::expect"):
                return r.extend(["?"])
            return r
        return AP(("call", d.name() or "?", d.bb))
    rv = d
    k = rv["k"]
    if k == "use":
        return trace_operand(body, Operand(rv["op"]), depth + 1, through_calls, _seen)
    if k in ("ref", "rawptr", "copy_for_deref"):
        return trace_place(body, Place(rv["p"]), depth + 1, through_calls, _seen)
    if k == "cast":
        return trace_operand(body, Operand(rv["op"]), depth + 1, through_calls, _seen)
    if k == "discr":
        return trace_place(body, Place(rv["p"]), depth + 1, through_calls, _seen).extend(["<discr>"])
    if k == "tlref":
        return AP(("static", rv["def"]))
    return AP(("local", l))


def trace_place(body, place, depth=0, through_calls=True, _seen=None):
    base = trace_local(body, place.local, depth, through_calls, _seen)
    names = proj_names(place)
    # `x?`: (Try::branch(x) as Continue).0  ==>  x.?
    if base.root[0] == "call" and not base.proj and len(names) >= 2 and names[0] == "as:Continue" and tail2(base.root[1]) == "Try::branch":
        c = body.call_at(base.root[2])
        if c is not None and c.args:
            inner = trace_operand(body, c.args[0], depth + 1, through_calls, _seen)
            return inner.extend(["?"] + names[2:])
    return base.extend(names) if names else base


def trace_operand(body, op, depth=0, through_calls=True, _seen=None):
    if op.kind == "const":
        c = op.const
        if "fn" in c:
            return AP(("fn", c["fn"]))
        if "static" in c:
            return AP(("static", c["static"]))
        if "uneval" in c and "promoted" not in c:
            return AP(("static", c["uneval"]))
        if "promoted" in c and "bytes" not in c and "str" not in c:
            v = body.promoted_value(c["promoted"])
            if v is not None and not isinstance(v, (list, dict)) and v.__class__.__name__ in ("Variant", "str", "int", "float", "bool"):
                return AP(("const", repr(v) if v.__class__.__name__ == "Variant" else v))
        v = op.const_value()
        if v is None:
            v = c.get("bits", c.get("ty"))
        return AP(("const", v))
    if op.place is None:
        return AP(("unknown",))
    return trace_place(body, op.place, depth, through_calls, _seen)


# --- boolean conditions -----------------------------------------------------------------


def cond_sources(body, op, pol=True, depth=0):
    """Trace a bool operand back to its sources: list of (kind, obj, polarity).
    kind 'call' -> Call, 'place' -> AP, 'binop' -> (op, a, b), 'const' -> bool"""
    if op.kind == "const":
        return [("const", op.const_value(), pol)]
    pl = op.place
    if pl.proj:
        return [("place", trace_place(body, pl), pol)]
    defs = body.defs_of(pl.local)
    if len(defs) != 1 or depth > 20:
        # multi-def bool (e.g. `a && b` lowered via temp): report each def that is a plain value
        if len(defs) > 1 and depth <= 20:
            return [("multi", [(b, d) for b, _, d in defs], pol)]
        return [("place", trace_local(body, pl.local), pol)]
    b, i, d = defs[0]
    if isinstance(d, Call):
        return [("call", d, pol)]
    k = d["k"]
    if k == "use":
        return cond_sources(body, Operand(d["op"]), pol, depth + 1)
    if k == "unop" and d["op"] == "Not":
        return cond_sources(body, Operand(d["a"]), not pol, depth + 1)
    if k == "binop":
        return [("binop", (d["op"], Operand(d["a"]), Operand(d["b"])), pol)]
    if k == "discr":
        return [("discr", (trace_place(body, Place(d["p"])), d), pol)]
    if k == "copy_for_deref" or k == "ref":
        return [("place", trace_place(body, Place(d["p"])), pol)]
    return [("other", d, pol)]


def switch_info(body, b):
    t = body.term(b)
    if t["k"] != "switch":
        return None
    return Operand(t["d"]), [(v, tb) for v, tb in t["ts"]], t["else"], t["dty"]


def edge_dominates(body, edge, site):
    """True iff every path entry -> site uses CFG edge (b, t)."""
    b, t = edge
    sc = body.succs()
    if sum(1 for x in body.succ(b) if x == t) == 0:
        return False
    seen = set()
    st = [0]
    while st:
        x = st.pop()
        if x in seen:
            continue
        seen.add(x)
        if x == site:
            return False
        for s in sc[x]:
            if x == b and s == t:
                continue
            st.append(s)
    return True


def guard_facts(body, site):
    """All (switch block, value-on-edge, [sources]) facts known to hold at block `site`:
    for each switch whose single outgoing edge dominates `site`."""
    out = []
    for d in body.dominators(site):
        t = body.term(d)
        if t["k"] != "switch" or d in body._const_switch:
            continue
        op, ts, els, dty = switch_info(body, d)
        targets = {}
        for v, tb in ts:
            targets.setdefault(tb, []).append(v)
        cand = list(targets.items()) + [(els, None)]
        for tb, vals in cand:
            if tb == els and vals is not None:
                continue
            if d == site:
                continue
            if edge_dominates(body, (d, tb), site):
                if vals is None:
                    excluded = [v for v, _ in ts]
                    fact = ("not_in", excluded)
                else:
                    fact = ("in", vals)
                out.append((d, fact, op, dty))
    return out


def bool_guard_calls(body, site):
    """Calls whose boolean result is known at `site`: [(Call, truth)]."""
    out = []
    for d, fact, op, dty in guard_facts(body, site):
        if dty != "bool":
            continue
        if fact[0] == "in":
            val = fact[1] != ["0"]
        else:
            val = "0" in fact[1]  # else-edge of a bool switch on [0] means true
        for kind, obj, pol in cond_sources(body, op):
            truth = val if pol else (not val)
            out.append((kind, obj, truth, d))
    return out


# --- paths ------------------------------------------------------------------------------


def reach_avoiding(body, start, avoid, targets):
    """Is some block in `targets` reachable from `start` without passing through `avoid` blocks?
    (start itself is not tested against avoid)"""
    sc = body.succs()
    seen = set()
    st = list(sc[start]) if start is not None else [0]
    while st:
        x = st.pop()
        if x in seen:
            continue
        seen.add(x)
        if x in targets:
            return x
        if x in avoid:
            continue
        st.extend(sc[x])
    return None


def err_exit_blocks(body):
    """Blocks that construct Result::Err / ControlFlow::Break into the return place or call
    FromResidual::from_residual (the `?` error path)."""
    out = set()
    for c in body.calls():
        if c.callee and c.callee.endswith("FromResidual::from_residual") and c.dest is not None and c.dest.local == 0:
            out.add(c.bb)
    for b, i, p, rv, s in body.assignments():
        if p.local == 0 and rv["k"] == "agg" and rv.get("agg") == "adt" and rv.get("variant") in ("Err",):
            out.add(b)
    return out
