"""Predicate-sensitive forward analysis (P2): which valuations of a small set of *relevant*
predicates can hold when control reaches a site.  Path-sensitive only on the relevant predicates
(ESP-style property simulation), so `a.is_none() || guard(a, b)` idioms, match guards and early
returns are all handled by the same mechanism."""
from .facts import Operand, Place, Call
from . import an


class Pred:
    """A predicate instance: key (hashable), and the roots its truth depends on."""

    __slots__ = ("key", "deps", "variant_true", "universe", "to_set")

    def __init__(self, key, deps, variant_true=None, universe=None, to_set=None):
        self.key = key
        self.deps = deps  # list of AP
        # for discriminant switches: interpret "variant == variant_true" as the boolean value of the predicate
        self.variant_true = variant_true
        # integer-valued subject (e.g. a byte): facts are frozensets of possible values within `universe`;
        # `to_set(truth)` converts the outcome of a boolean test (comparison with a constant) into such a set
        self.universe = universe
        self.to_set = to_set


def ap_prefix(a, b):
    """a is a prefix of b (same root, proj prefix)."""
    return a.root == b.root and b.proj[: len(a.proj)] == a.proj


def _kills(body, b, upto_term=True):
    """Roots written by block b: [('local', L)] for assigned locals / mutably borrowed places,
    [('callbb', b)] when the block's terminator is a call (its result is fresh)."""
    out = []
    for s in body.stmts(b):
        if s["k"] == "assign":
            p = Place(s["p"])
            out.append(("local", p.local, an.trace_place(body, p, through_calls=True) if p.proj else None))
        elif s["k"] == "set_discr":
            p = Place(s["p"])
            out.append(("local", p.local, None))
    t = body.term(b)
    if upto_term and t["k"] == "call":
        out.append(("callbb", b))
        # a callee receiving `&mut P` may write P
        for a in t["args"]:
            o = Operand(a)
            if o.place is not None and body.local_ty(o.place.local).startswith("&mut"):
                out.append(("mutref", an.trace_operand(body, o)))
        d = t.get("dest")
        if d:
            out.append(("local", d["l"], None))
    return out


def _dead(pred, kills):
    for k in kills:
        for dep in pred.deps:
            if k[0] == "local":
                if dep.root == ("local", k[1]):
                    return True
                if k[2] is not None and (ap_prefix(k[2], dep) or ap_prefix(dep, k[2])):
                    return True
            elif k[0] == "callbb":
                if dep.root[0] == "call" and dep.root[2] == k[1]:
                    return True
            elif k[0] == "mutref":
                w = k[1]
                if ap_prefix(w, dep) or ap_prefix(dep, w):
                    return True
    return False


def valuations_at(body, site_bb, classify, max_states=20000, avoid=()):
    """classify(kind, obj, body, switch_bb) -> Pred or None, for a condition source of a switch.
    For discriminant switches classify receives kind='discr', obj=(AP, rvalue).
    Returns (list of valuations (dict key -> value) holding just before the terminator of site_bb,
    complete flag)."""
    # pre-compute switch classification
    sw_preds = {}
    for b in range(len(body.blocks)):
        t = body.term(b)
        if t["k"] != "switch" or b in body._const_switch:
            continue
        srcs = an.cond_sources(body, Operand(t["d"]))
        lst = []
        for kind, obj, pol in srcs:
            if kind == "place":
                r0 = classify(kind, obj, body, b)
                if r0 is not None:
                    p, neg = r0
                    lst.append((kind, obj, pol if not neg else (not pol), p))
                    continue
            if kind in ("multi", "place"):
                # bool temp assigned on several paths from predicate calls: resolved through aliases
                loc = None
                if kind == "place" and obj.root[0] == "local" and not obj.proj:
                    loc = obj.root[1]
                elif kind == "multi":
                    o = Operand(t["d"])
                    loc = o.place.local if o.place is not None and not o.place.proj else None
                if loc is not None:
                    lst.append(("alias", loc, pol, None))
                    continue
                continue
            r = classify(kind, obj, body, b)
            if r is not None:
                p, neg = r
                lst.append((kind, obj, pol if not neg else (not pol), p))
        if lst:
            sw_preds[b] = lst
    # calls whose boolean result is stored in a multi-def local: alias facts
    alias_calls = {}
    for c in body.calls():
        if c.dest is not None and not c.dest.proj and body.local_ty(c.dest.local) == "bool" and len(body.defs_of(c.dest.local)) > 1:
            r = classify("call", c, body, c.bb)
            if r is not None:
                alias_calls[c.bb] = (c.dest.local, r[0], r[1])
    kills = {}
    preds_by_key = {}

    def get_kills(b):
        if b not in kills:
            kills[b] = _kills(body, b)
        return kills[b]

    start = (0, frozenset())
    seen = {start}
    work = [start]
    results = []
    complete = True
    sc = body.succs()
    avoid = set(avoid)
    while work:
        b, val = work.pop()
        if b in avoid and b != site_bb:
            continue
        # effects of the block body
        ks = get_kills(b)
        if b == site_bb:
            ks_site = _kills(body, b, upto_term=False)
            v = {k: x for k, x in val if not _dead(preds_by_key[k], ks_site)}
            results.append(v)
            # do not continue past the site along this state? continue: loops may re-reach the site
        if ks:
            val2 = frozenset((k, x) for k, x in val if not _dead(preds_by_key[k], ks))
        else:
            val2 = val
        if b in alias_calls:
            loc, p, neg = alias_calls[b]
            preds_by_key[p.key] = p
            akey = ("ALIAS", loc)
            preds_by_key[akey] = Pred(akey, [an.AP(("local", loc))] + list(p.deps))
            d = dict(val2)
            d.pop(akey, None)
            d[akey] = (p.key, neg)
            val2 = frozenset(d.items())
        t = body.term(b)
        if b in sw_preds:
            # group targets -> values
            tmap = {}
            for v_, tb in t["ts"]:
                tmap.setdefault(tb, []).append(v_)
            listed = [v_ for v_, _ in t["ts"]]
            for tb in set(sc[b]):
                vals_here = tmap.get(tb)
                is_else = tb == t["else"]
                newval = dict(val2)
                feasible = True
                for kind, obj, pol, p in sw_preds[b]:
                    if kind == "alias":
                        al = newval.get(("ALIAS", obj))
                        if al is None:
                            continue
                        pkey, neg = al
                        p = preds_by_key[pkey]
                        if neg:
                            pol = not pol
                    preds_by_key[p.key] = p
                    if t["dty"] == "bool":
                        if is_else and vals_here:
                            continue  # both edges go to the same block
                        truth = (vals_here != ["0"]) if not is_else else ("0" in listed)
                        if not pol:
                            truth = not truth
                        fact = truth
                        if p.to_set is not None:
                            fact = p.to_set(truth)
                    elif p.universe is not None and kind != "discr":
                        if is_else and vals_here:
                            continue
                        if is_else:
                            fact = frozenset(p.universe) - frozenset(int(v_) for v_ in listed)
                        else:
                            fact = frozenset(int(v_) for v_ in vals_here)
                    elif kind == "discr":
                        names = obj[1].get("variants", {})
                        if is_else and vals_here:
                            fact = frozenset(names.values())
                        elif is_else:
                            fact = frozenset(n for v_, n in names.items() if v_ not in listed)
                        else:
                            fact = frozenset(names.get(v_, v_) for v_ in vals_here)
                        if p.variant_true is not None:
                            if fact == frozenset([p.variant_true]):
                                fact = True
                            elif p.variant_true not in fact:
                                fact = False
                            else:
                                continue
                            if not pol:
                                fact = not fact
                    else:
                        continue
                    old = newval.get(p.key)
                    if old is not None:
                        if isinstance(fact, bool):
                            if old != fact:
                                feasible = False
                                break
                        else:
                            fact = old & fact
                            if not fact:
                                feasible = False
                                break
                    newval[p.key] = fact
                if not feasible:
                    continue
                st = (tb, frozenset(newval.items()))
                if st not in seen:
                    seen.add(st)
                    work.append(st)
        else:
            for tb in sc[b]:
                st = (tb, val2)
                if st not in seen:
                    seen.add(st)
                    work.append(st)
        if len(seen) > max_states:
            complete = False
            break
    return results, complete
