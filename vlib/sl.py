"""Straight-line abstract evaluator (P6): turns initialiser code that *is* a table
(`m.insert(K, const-expr)` sequences, array literals, `from_iter`) into data, without running it.
Fails closed (Unextractable) when the code stops having table shape."""
import math

from .facts import Operand, Place, Call
from . import an


class Unextractable(Exception):
    pass


class Unknown:
    def __init__(self, why=""):
        self.why = why

    def __repr__(self):
        return "Unknown(%s)" % self.why


class Map:
    def __init__(self, kind):
        self.kind = kind
        self.items = []  # insertion order, duplicates kept
        self.inserts = []  # (key, value, Call)

    def insert(self, k, v, call=None):
        self.items.append((k, v))
        self.inserts.append((k, v, call))

    def as_dict(self):
        d = {}
        for k, v in self.items:
            d[k] = v
        return d

    def duplicates(self):
        seen, dup = set(), []
        for k, _ in self.items:
            if k in seen:
                dup.append(k)
            seen.add(k)
        return dup

    def __repr__(self):
        return "%s%r" % (self.kind, self.items[:4])


class Variant(tuple):
    """(adt, name, fields...)"""

    def __new__(cls, adt, name, fields=()):
        return super().__new__(cls, (adt, name, tuple(fields)))

    @property
    def adt(self):
        return self[0]

    @property
    def name(self):
        return self[1]

    @property
    def fields(self):
        return self[2]

    def __repr__(self):
        short = self.adt.rsplit("::", 1)[-1]
        if self.fields:
            return "%s::%s%r" % (short, self.name, self.fields)
        return "%s::%s" % (short, self.name)


class Struct:
    def __init__(self, adt, fields):
        self.adt = adt
        self.fields = fields

    def __repr__(self):
        return "%s%r" % (self.adt.rsplit("::", 1)[-1], self.fields)


def _hashable(v):
    try:
        hash(v)
        return True
    except TypeError:
        return False


CONTAINER_NEW = {
    "HashMap::new": "HashMap", "BTreeMap::new": "BTreeMap", "HashSet::new": "HashSet", "BTreeSet::new": "BTreeSet",
    "Vec::new": "Vec", "HashMap::with_capacity": "HashMap", "Vec::with_capacity": "Vec", "IndexMap::new": "IndexMap",
    "HashSet::with_capacity": "HashSet",
}


class Eval:
    def __init__(self, prog, body, hooks=None, args=None):
        self.prog = prog
        self.body = body
        self.env = {}
        self.hooks = hooks or {}
        self.trace = []
        if args:
            for i, a in enumerate(args):
                self.env[i + 1] = a

    # --- operands ----------------------------------------------------------------------
    def place(self, p):
        v = self.env.get(p.local, Unknown("unset _%d" % p.local))
        for e in p.proj:
            k = e["k"]
            if k == "deref":
                continue
            if k == "field":
                if isinstance(v, Struct):
                    v = v.fields.get(e.get("n"), Unknown("field"))
                elif isinstance(v, (list, tuple)) and not isinstance(v, Variant):
                    i = e["i"]
                    v = v[i] if i < len(v) else Unknown("tuple idx")
                elif isinstance(v, Variant):
                    i = e["i"]
                    v = v.fields[i] if i < len(v.fields) else Unknown("variant field")
                else:
                    return Unknown("field of %r" % (v,))
            elif k == "downcast":
                continue
            elif k == "cindex":
                if isinstance(v, list) and e["i"] < len(v):
                    v = v[e["i"]]
                else:
                    return Unknown("cindex")
            else:
                return Unknown("proj " + k)
        return v

    def operand(self, o):
        if o.kind == "const":
            c = o.const
            if "fn" in c:
                return ("fn", c["fn"], tuple(c.get("fn_args", [])))
            if "f" in c:
                return float(c["f"])
            if "str" in c:
                return c["str"]
            if "v" in c:
                v = c["v"]
                if isinstance(v, bool):
                    return v
                try:
                    return int(v)
                except (ValueError, TypeError):
                    return v
            if c.get("zst"):
                ty = c.get("ty", "")
                if "closure" in ty:
                    return ("closure", ty)
                return ()
            if "bytes" in c:
                return bytes(c["bytes"])
            if "uneval" in c and "promoted" not in c:
                return ("static", c["uneval"])
            if "promoted" in c:
                return Unknown("promoted")
            return Unknown("const " + c.get("ty", ""))
        return self.place(o.place)

    # --- rvalues -----------------------------------------------------------------------
    def rvalue(self, rv):
        k = rv["k"]
        if k == "use":
            return self.operand(Operand(rv["op"]))
        if k in ("ref", "rawptr", "copy_for_deref"):
            return self.place(Place(rv["p"]))
        if k == "cast":
            v = self.operand(Operand(rv["op"]))
            if rv["cast"].startswith("IntToFloat") and isinstance(v, int):
                return float(v)
            if rv["cast"].startswith("IntToInt") and isinstance(v, int):
                ty = rv["ty"]
                bits = {"u8": 8, "u16": 16, "u32": 32, "u64": 64, "usize": 64}.get(ty)
                if bits:
                    return v & ((1 << bits) - 1)
                return v
            return v
        if k == "binop":
            a = self.operand(Operand(rv["a"]))
            b = self.operand(Operand(rv["b"]))
            op = rv["op"]
            if isinstance(a, (int, float)) and isinstance(b, (int, float)) and not isinstance(a, bool):
                try:
                    base = op.replace("WithOverflow", "").replace("Unchecked", "")
                    if base == "Add":
                        r = a + b
                    elif base == "Sub":
                        r = a - b
                    elif base == "Mul":
                        r = a * b
                    elif base == "Div":
                        r = a / b if isinstance(a, float) or isinstance(b, float) else a // b
                    elif base == "Shl":
                        r = a << b
                    elif base == "Shr":
                        r = a >> b
                    elif base == "BitOr":
                        r = a | b
                    elif base == "BitAnd":
                        r = a & b
                    else:
                        return Unknown("binop " + op)
                    if "WithOverflow" in op:
                        return [r, False]
                    return r
                except (ZeroDivisionError, TypeError):
                    return Unknown("arith")
            return Unknown("binop %s on %r,%r" % (op, a, b))
        if k == "unop":
            a = self.operand(Operand(rv["a"]))
            if rv["op"] == "Neg" and isinstance(a, (int, float)):
                return -a
            if rv["op"] == "Not" and isinstance(a, bool):
                return not a
            return Unknown("unop")
        if k == "agg":
            ops = [self.operand(Operand(o)) for o in rv.get("ops", [])]
            agg = rv["agg"]
            if agg == "adt":
                fields = rv.get("fields", [])
                adt = rv["adt"]
                # enum variant or struct?
                if rv.get("variant") and not adt.endswith("::" + rv["variant"]) and self._is_enum(adt):
                    return Variant(adt, rv["variant"], [v if _hashable(v) else repr(v) for v in ops])
                return Struct(adt, dict(zip(fields, ops)))
            if agg in ("array", "tuple"):
                return list(ops)
            if agg == "closure":
                return ("closure", rv["def"])
            return Unknown("agg " + agg)
        if k == "discr":
            return Unknown("discr")
        return Unknown("rv " + k)

    def _is_enum(self, adt):
        cache = getattr(self.prog, "_enum_names", None)
        if cache is None:
            cache = set()
            for crate, e in self.prog.hir_items("enums"):
                cache.add(e["path"])
            cache.update({"std::option::Option", "std::result::Result"})
            self.prog._enum_names = cache
        return adt in cache

    # --- calls -------------------------------------------------------------------------
    def call(self, c):
        name = c.name() or ""
        t2 = an.tail2(c.callee) if c.callee else ""
        t2r = an.tail2(name)
        args = [self.operand(a) for a in c.args]
        for key in (name, t2r, t2):
            if key in self.hooks:
                return self.hooks[key](self, c, args)
        if "__inline__" in self.hooks and name in self.prog.bodies and self.hooks["__inline__"](name):
            sub = Eval(self.prog, self.prog.bodies[name], self.hooks, args=args)
            sub.depth = getattr(self, "depth", 0) + 1
            if sub.depth > 6:
                raise Unextractable("inlining too deep at %s" % name)
            return sub.run()
        if t2r in CONTAINER_NEW or t2 in CONTAINER_NEW:
            return Map(CONTAINER_NEW.get(t2r) or CONTAINER_NEW[t2])
        if t2r in ("HashMap::insert", "BTreeMap::insert", "IndexMap::insert"):
            m, k, v = args
            if not isinstance(m, Map):
                raise Unextractable("insert into non-table %r at %s" % (m, c.loc()))
            if isinstance(k, Unknown) or not _hashable(k):
                raise Unextractable("non-constant key %r at %s" % (k, c.loc()))
            m.insert(k, v, c)
            return None
        if t2r in ("HashSet::insert", "BTreeSet::insert", "Vec::push"):
            m, k = args
            if not isinstance(m, Map):
                raise Unextractable("insert into non-table %r at %s" % (m, c.loc()))
            m.insert(k, True, c)
            return None
        if t2 in ("FromIterator::from_iter", "From::from", "Into::into", "IntoIterator::into_iter") or t2r in ("Box::new", "Arc::new", "Rc::new"):
            v = args[0]
            if t2 == "FromIterator::from_iter" and isinstance(v, list):
                m = Map("set")
                for x in v:
                    m.insert(x, True, c)
                return m
            return v
        if t2r in ("Lazy::new", "Lazy::force"):
            return args[0]
        if t2 in ("Deref::deref", "DerefMut::deref_mut", "Clone::clone", "AsRef::as_ref", "Borrow::borrow", "ToOwned::to_owned", "ToString::to_string"):
            return args[0]
        return Unknown("call " + name)

    # --- driver ------------------------------------------------------------------------
    def run(self, max_blocks=200000):
        body = self.body
        b = 0
        n = 0
        while True:
            n += 1
            if n > max_blocks:
                raise Unextractable("%s: too long / loops" % body.path)
            for s in body.stmts(b):
                if s["k"] == "assign":
                    p = Place(s["p"])
                    v = self.rvalue(s["rv"])
                    if not p.proj:
                        self.env[p.local] = v
                    elif len(p.proj) == 1 and p.proj[0]["k"] == "field":
                        base = self.env.get(p.local)
                        e = p.proj[0]
                        if isinstance(base, list) and e["i"] < len(base):
                            base[e["i"]] = v
                        elif isinstance(base, Struct):
                            base.fields[e.get("n")] = v
                        elif base is None or isinstance(base, Unknown):
                            # tuple built field by field
                            lst = []
                            self.env[p.local] = lst
                            while len(lst) <= e["i"]:
                                lst.append(Unknown("uninit"))
                            lst[e["i"]] = v
            t = body.term(b)
            k = t["k"]
            if k == "return":
                return self.env.get(0)
            if k == "goto":
                b = t["t"]
            elif k in ("drop", "assert"):
                b = t["t"]
            elif k == "call":
                c = body.call_at(b)
                if c is None:
                    c = Call(body, b, t)
                r = self.call(c)
                if c.dest is not None and not c.dest.proj:
                    self.env[c.dest.local] = r
                if c.target is None:
                    raise Unextractable("%s: diverging call %s" % (body.path, c.name()))
                b = c.target
            elif k == "switch":
                if b in body._const_switch:
                    b = body._const_switch[b]
                    continue
                v = self.operand(Operand(t["d"]))
                if isinstance(v, bool):
                    v = int(v)
                if isinstance(v, int):
                    tgt = t["else"]
                    for val, tb in t["ts"]:
                        if int(val) == v:
                            tgt = tb
                    b = tgt
                    continue
                raise Unextractable("%s: data-dependent branch at bb%d (line %d): not table-shaped" % (body.path, b, t["span"]["l"]))
            else:
                raise Unextractable("%s: terminator %s" % (body.path, k))


def eval_lazy_static(prog, static_suffix, hooks=None):
    """Evaluate `static X: Lazy<T> = Lazy::new(|| {...})`: returns the closure's abstract result."""
    b = prog.one(static_suffix)
    # find the closure / fn item passed to Lazy::new
    target = None
    for c in b.calls():
        if an.tail2(c.name()) == "Lazy::new":
            for a in c.args:
                ap = an.trace_operand(b, a)
                if ap.root[0] == "fn":
                    target = ap.root[1]
                elif a.is_const() and "closure" in a.const.get("ty", ""):
                    target = _closure_path(a.const["ty"])
    if target is None:
        cl = prog.closures_of(b)
        if len(cl) == 1:
            return Eval(prog, cl[0], hooks).run()
        raise Unextractable("%s: no Lazy::new(closure) found" % b.path)
    from .facts import norm
    tb = prog.body(norm(target))
    if tb is None:
        cl = prog.closures_of(b)
        if len(cl) == 1:
            tb = cl[0]
        else:
            raise Unextractable("%s: initialiser closure %s not found" % (b.path, target))
    return Eval(prog, tb, hooks).run()


def _closure_path(ty):
    # "{closure@crates/...}" has no def path; fall back to closures_of
    return None
